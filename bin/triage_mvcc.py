#!/usr/bin/env python3
import sys, json, re
sys.path.insert(0,'/verif')
from lib import vlib
out=open(sys.argv[1]).read(); tr=vlib.read_ndjson(sys.argv[2]); only=sys.argv[3] if len(sys.argv)>3 else None
n=0
for m in vlib.tlc_prints(out,"MISMATCH"):
    mm=re.match(r'<<\s*"MISMATCH",\s*(\d+),\s*"(\w+)",\s*(.*)$', m, re.S)
    line=int(mm.group(1)); c=mm.group(2)
    if only and c!=only: continue
    ev=tr[line-1]; prev=tr[line-2]
    print("=== line",line,c)
    print(" cmd :",json.dumps(ev.get('cmd')))
    if 'proj' in prev:
        for i in range(4):
            l=prev['proj']['lock'][i]; w=prev['proj']['writes'][i]
            if l['ts'] or w: print("  before k%d lock=%s writes=%s"%(i+1, {k:v for k,v in l.items() if v} , [(x['type'],x['start'],x['commit'],x['val']) for x in w]))
    print(" got :",json.dumps(ev.get('resp')))
    for i in range(4):
        l=ev['proj']['lock'][i]; w=ev['proj']['writes'][i]
        if l['ts'] or w: print("  after  k%d lock=%s writes=%s"%(i+1, {k:v for k,v in l.items() if v} , [(x['type'],x['start'],x['commit'],x['val']) for x in w]))
    print(" want:",re.sub(r'\s+',' ',mm.group(3))[:900])
    n+=1
    if n>=int(sys.argv[4]) if len(sys.argv)>4 else n>=6: break
