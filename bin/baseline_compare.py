#!/usr/bin/env python3
"""usage: baseline_compare.py out1.json out2.json ... : compares `go test -json` outputs with BASELINE.json stable_pass"""
import json, sys
res = {}
for f in sys.argv[1:]:
    for l in open(f, errors="replace"):
        try:
            e = json.loads(l)
        except Exception:
            continue
        if e.get("Action") in ("pass", "fail", "skip") and e.get("Test"):
            res["%s::%s" % (e["Package"], e["Test"])] = e["Action"]
b = json.load(open("/root/.vp/BASELINE.json"))["stable_pass"]
bad = [t for t in b if res.get(t) != "pass"]
print("stable_pass=%d passing_now=%d not_passing=%d" % (len(b), len(b) - len(bad), len(bad)))
for t in bad[:40]:
    print("  ", t, res.get(t))
sys.exit(1 if bad else 0)
