#!/usr/bin/env python3
"""triage.py out.txt trace.ndjson [filter-substring] [max]: show mismatching events with TLC's expectation"""
import sys, json, re
sys.path.insert(0,'/verif')
from lib import vlib
out=open(sys.argv[1]).read(); tr=vlib.read_ndjson(sys.argv[2]); flt=sys.argv[3] if len(sys.argv)>3 else ""; mx=int(sys.argv[4]) if len(sys.argv)>4 else 5
n=0
for m in vlib.tlc_prints(out,"MISMATCH"):
    mm=re.match(r'<<\s*"MISMATCH",\s*(\d+),\s*(.*)$', m, re.S)
    line=int(mm.group(1)); rest=re.sub(r'\s+',' ',mm.group(2))
    if flt and flt not in rest[:80]: continue
    ev=dict(tr[line-1]); 
    print("=== line",line); print(" EVENT:",json.dumps(ev)[:1500]); print(" MODEL:",rest[:1500])
    # context: previous 6 ops
    j=line-2; ctx=[]
    while j>=0 and tr[j].get('ev')!='reset' and len(ctx)<8:
        e=tr[j]; ctx.append({k:e[k] for k in e if k not in('proj','out','ev')}); j-=1
    print(" PREV :",json.dumps(ctx[::-1])[:1200])
    n+=1
    if n>=mx: break
