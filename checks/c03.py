"""C03 - Commit's answer under single and double faults at every RPC index of Commit."""
from checks.txn_common import run_txn_check
def run(tier, seed, replay=None):
    return run_txn_check("C03", [("c03", 6, 1), ("c03uni", 12, 1)], tier, seed, replay)
