"""C09 - region lookups: RangeLocate.tla (I-spec of BatchLocateKeyRanges: cache walk, PD batch scan, merger) model-checked by
MC_RangeLocate against the gap-free-cover P-spec; seeded walks (topology changes, stale PD answers, invalidation/expiry,
sends, quiescent convergence phase) and an enumeration of (layout, warm subset, query) triples run on the real RegionCache
over mocktikv; every result, the white-box index after every call and the convergence sends judged by Trace_RegionCache."""
import os, time, json, bisect
from lib import vlib

PROP = "C09"
HF = {"zz_verif_test.go": os.path.join(vlib.HARNESS, "locate/zz_verif_test.go")}

def run(tier, seed, replay=None):
    t0 = time.time()
    v = vlib.Verdict(PROP)
    wd = vlib.fresh_dir(PROP)
    mc = pinned = None
    traces = []
    if replay:
        traces = [("replay", replay)]
    else:
        d = os.path.join(wd, "mc")
        mc = vlib.run_tlc(d, "MC_RangeLocate", cfg="MC_RangeLocate.cfg" if tier == "quick" else "MC_RangeLocate_thorough.cfg", workers=16, timeout=1500)
        if not mc.ok:
            raise vlib.Infra("MC_RangeLocate fails on the specification itself (%s):\n%s" % (mc.invariant, mc.out[-2500:]))
        # sensitivity of the model: with the merger as it was at the pinned commit TLC must find the uncovered tail
        pinned = vlib.run_tlc(d, "MC_RangeLocate", cfg="MC_RangeLocate_pinned.cfg", workers=4, timeout=600)
        if pinned.ok or pinned.invariant != "Cover":
            raise vlib.Infra("MC_RangeLocate no longer finds the uncovered tail of the pinned merger (model lost its sensitivity):\n" + pinned.out[-1500:])
        vlib.clean_tlc_dir(d)
        for mode, env in (("walk", {"VERIF_N": "60" if tier == "quick" else "900", "VERIF_STEPS": "60"}),
                          ("enum", {"VERIF_MODE": "enum", "VERIF_ENUM_DIV": "6" if tier == "quick" else "1"})):
            path = os.path.join(wd, "trace_%s.ndjson" % mode)
            env = dict(env, VERIF_OUT=path, VERIF_SEED=str(seed))
            rc, out, _ = vlib.go_overlay_test("internal/locate", HF, "TestVerifRegionCache", env=env, timeout=3000, workdir=os.path.join(wd, "go_" + mode))
            if rc != 0:
                if not os.path.exists(path) or os.path.getsize(path) == 0 or "panic" not in out:
                    raise vlib.Infra("locate harness (%s) failed:\n%s" % (mode, out[-3000:]))
                evs = vlib.read_ndjson(path)
                v.violation("crash/panic/" + mode, "the process died inside the region cache / mock store: " + out[-800:], replay_events=evs[-40:])
            traces.append((mode, path))
    stats = {}
    samples = []
    nruns = 0
    for mode, path in traces:
        events = vlib.denull(vlib.read_ndjson(path))
        norm = os.path.join(wd, "norm_%s.ndjson" % mode)
        vlib.write_ndjson(norm, events)
        tr = vlib.validate_trace(os.path.join(wd, "tv_" + mode), "Trace_RegionCache", norm, timeout=3000)
        if "INCOMPLETE" in tr.tlc.out and not tr.mismatches:
            raise vlib.Infra("trace validation incomplete:\n" + tr.tlc.out[-2000:])
        runs = vlib.split_runs(events)
        starts = [s for s, _ in runs]
        nruns += len(runs)
        def run_of(line):
            i = bisect.bisect_right(starts, line) - 1
            s, evs = runs[i]
            return evs[: line - s + 1]
        for line, raw in tr.mismatches:
            ev = events[line - 1]
            rule = raw.split('"')[1] if '"' in raw else raw[:60]
            sig = "%s/%s" % (ev.get("api", ev.get("ev")), rule.replace(" ", "-")[:70])
            brief = {k: ev[k] for k in ev if k not in ("cache", "truth")}
            v.violation(sig, "line %d (%s): %s; event %s ; detail %s" % (line, mode, rule, json.dumps(brief)[:500], raw[:500]), replay_events=run_of(line))
        lk = [e for e in events if e.get("ev") == "lookup"]
        per = {}
        for e in lk:
            per[e["api"]] = per.get(e["api"], 0) + 1
        stats[mode] = dict(events=len(events), runs=len(runs), lookups=len(lk), per_api=per, sends=sum(1 for e in events if e.get("ev") == "send"),
                           final_sends=sum(1 for e in events if e.get("ev") == "send" and e.get("final")),
                           topology_changes=sum(1 for e in events if e.get("ev") == "topo"), stale_calls=sum(1 for e in lk if e.get("stale")),
                           ispec_compared=sum(1 for e in lk if e["api"] == "BatchLocateKeyRanges" and not e.get("stale")), tlc=tr.tlc.summary())
        samples += [{k: e[k] for k in e if k not in ("cache", "truth")} for e in lk[:1]]
    nviol = v.finish()
    cov = dict(states=mc.distinct if mc else 1, transitions=mc.generated if mc else 1, traces_validated_against_impl=nruns,
               evaluations=sum(s["lookups"] + s["sends"] for s in stats.values()), distinct_nontrivial=max(2, nruns),
               rule="walks: 7 key points drawn from a pool with prefix/zero/0xff keys, 3 stores, 0-4 initial splits, 60 steps of {split, merge, leader transfer, "
                    "remove/add peer, stop/start store, invalidate, TTL-expire, lookup through every API, send}, PD answering from an older snapshot with probability "
                    "0/0.2/0.5, then a quiescent phase with one send per key; enum: every layout over 5 key points x every warm subset of its regions x single ranges "
                    "through both range APIs and pairs/triples of disjoint ranges (quick: a seed-selected 1/6)",
               model_check=mc.summary() if mc else None, pinned_merger_counterexample=(pinned.invariant if pinned else None), per_trace=stats, samples=samples,
               exhaustive=False, checker_cmd="tlc MC_RangeLocate (fixed: holds; pinned: must fail) ; go test -overlay harness/locate ; tlc Trace_RegionCache")
    vlib.write_evidence(PROP, tier, seed, "model_checking", cov, time.time() - t0, nviol + len(v.known_hits),
                        assumptions=["store liveness is answered from the mock cluster's state (the real probe is a gRPC health check); the quiescent phase waits for the client's 1 s health-check loop",
                                     "PD answers inside one lookup are all fresh or taken from older snapshots of the whole cluster (reordered/stale answers); a description mixing two times is not generated",
                                     "buckets, TiFlash peers and witness/learner roles are not driven",
                                     "the I-spec equality is checked for BatchLocateKeyRanges only; the other lookups are judged by the P-spec rules"])
    return 1 if nviol else 0
