"""C17 - latch scheduler: Latch.tla (I-spec) model-checked over a family of workloads (safety + liveness),
an edge cover of its state graph replayed step by step into internal/latch and validated by TLC (Trace_Latch),
and concurrent histories through the real scheduler goroutine judged by the P-spec LatchHistory.tla."""
import os, re, time, json
from lib import vlib

PROP = "C17"
HF = {"zz_verif_test.go": os.path.join(vlib.HARNESS, "latch/zz_verif_test.go")}

def cfg_for(name, tier, wd):
    txt = open(os.path.join(vlib.SPEC, name)).read()
    if tier == "thorough":
        txt = txt.replace('Family = "quick"', 'Family = "thorough"')
    out = name.replace(".cfg", "_run.cfg")
    os.makedirs(wd, exist_ok=True)
    open(os.path.join(wd, out), "w").write(txt)
    return out

def run(tier, seed, replay=None):
    t0 = time.time()
    v = vlib.Verdict(PROP)
    wd = vlib.fresh_dir(PROP)
    mc = live = None
    nscn = 0
    if replay:
        kind = "stress" if '"ev":"call"' in open(replay).read(20000).replace(" ", "") else "replay"
        traces = {kind: replay}
    else:
        d = os.path.join(wd, "mc")
        mc = vlib.run_tlc(d, "MC_Latch", cfg=cfg_for("MC_Latch.cfg", tier, d), workers=16, timeout=3000)
        if not mc.ok:
            raise vlib.Infra("MC_Latch fails on the specification itself (%s):\n%s" % (mc.invariant, mc.out[-2500:]))
        live = vlib.run_tlc(d, "MC_Latch", cfg=cfg_for("MC_Latch_live.cfg", "quick", d), workers=16, timeout=1500)
        if not live.ok:
            raise vlib.Infra("liveness check of Latch.tla failed (%s):\n%s" % (live.invariant, live.out[-2500:]))
        vlib.clean_tlc_dir(d)
        g = os.path.join(wd, "gen")
        gen = vlib.run_tlc(g, "MC_Latch", cfg=cfg_for("Gen_Latch.cfg", tier, g), workers=1, timeout=3000)
        if not gen.ok:
            raise vlib.Infra("generator failed:\n" + gen.out[-2000:])
        scn = os.path.join(wd, "scenarios.jsonl")
        mod = 1 if tier == "quick" else 6
        with open(scn, "w") as f:
            i = 0
            for line in gen.out.splitlines():
                if line.startswith('<<"SCN", "'):
                    i += 1
                    if (i + seed) % mod == 0:
                        f.write(json.loads(line[len('<<"SCN", '):-2]) + "\n")
                        nscn += 1
        vlib.clean_tlc_dir(g)
        traces = {"replay": os.path.join(wd, "replay.ndjson"), "stress": os.path.join(wd, "stress.ndjson")}
        rc, out, _ = vlib.go_overlay_test("internal/latch", HF, "TestVerifLatchReplay", env={"VERIF_OUT": traces["replay"], "VERIF_SCENARIOS": scn,
                                          "VERIF_SLOTOF": "[1,1,2]"}, timeout=1500, workdir=os.path.join(wd, "go"))
        if rc != 0:
            raise vlib.Infra("latch replay harness failed:\n" + out[-3000:])
        rc, out, _ = vlib.go_overlay_test("internal/latch", HF, "TestVerifLatchStress", env={"VERIF_OUT": traces["stress"], "VERIF_SEED": str(seed),
                                          "VERIF_N": "30" if tier == "quick" else "400"}, timeout=1500, workdir=os.path.join(wd, "go2"))
        stress_crash = None
        if rc != 0:
            if not os.path.exists(traces["stress"]) or os.path.getsize(traces["stress"]) == 0:
                raise vlib.Infra("latch stress harness failed:\n" + out[-3000:])
            stress_crash = out[-1500:]   # the process died (e.g. a panic inside the scheduler goroutine): judge what was recorded
    stats = {}
    samples = []
    for kind, path in traces.items():
        events = vlib.read_ndjson(path)
        module = "Trace_Latch" if kind == "replay" else "LatchHistory"
        tr = vlib.validate_trace(os.path.join(wd, "tv_" + kind), module, path, timeout=3000)
        if "INCOMPLETE" in tr.tlc.out and not tr.invariant and not tr.mismatches:
            raise vlib.Infra("trace validation incomplete (%s):\n%s" % (module, tr.tlc.out[-2000:]))
        runs = vlib.split_runs(events)
        starts = [s for s, _ in runs]
        import bisect
        def run_of(line):
            i = bisect.bisect_right(starts, line) - 1
            s, evs = runs[i]
            return evs[: line - s + 1]
        for line, raw in tr.mismatches:
            ev = events[line - 1]
            if kind == "replay":
                sig = "replay/%s/%s" % (ev.get("a"), ev.get("res", "").split(":")[0])
                what = "line %d: step %s(t=%s) returned %s and left a state that Latch.tla's action does not produce: %s" % (line, ev.get("a"), ev.get("t"), ev.get("res"), json.dumps(ev.get("proj"))[:500])
            else:
                m = re.match(r'"([^"]+)"|<<"([^"]+)"', raw)
                msg = (m.group(1) or m.group(2)) if m else raw[:60]
                sig = "history/" + msg.replace(" ", "-")[:60]
                what = "line %d: %s: %s" % (line, msg, json.dumps(ev))
            v.violation(sig, what, replay_events=run_of(line))
        if tr.invariant:
            v.violation("%s/invariant/%s" % (kind, tr.invariant), "invariant %s of Latch.tla is false on a state logged from the real latches" % tr.invariant,
                        replay_events=events[:30])
        stats[kind] = dict(events=len(events), runs=len(runs), tlc=tr.tlc.summary())
        samples += [e for e in events if e.get("ev") in ("step", "ret")][:2]
        if kind == "stress":
            stats[kind]["stale_returns"] = sum(1 for e in events if e.get("ev") == "ret" and e.get("stale"))
            stats[kind]["nonstale_returns"] = sum(1 for e in events if e.get("ev") == "ret" and not e.get("stale"))
            stats[kind]["hung"] = any(e.get("ev") == "end" and e.get("hung") for e in events)
    if not replay and stress_crash and not v.viol:
        raise vlib.Infra("stress harness crashed and the recorded history shows no violation:\n" + stress_crash)
    nviol = v.finish()
    nrep = stats.get("replay", {}).get("runs", 0)
    cov = dict(states=mc.distinct if mc else 1, transitions=mc.generated if mc else 1,
               traces_validated_against_impl=nrep + stats.get("stress", {}).get("runs", 0),
               evaluations=sum(s["events"] for s in stats.values()), distinct_nontrivial=max(2, nrep),
               rule="(a) one scenario per transition of MC_Latch's state graph (shortest path to the source state + the transition; quick: every transition of the quick "
                    "family, thorough: a seed-selected 1/6 of the larger family), executed with acquireSlot/releaseSlot on real latches; each is distinct by construction. "
                    "(b) seeded concurrent rounds through the real LatchesScheduler.",
               model_family=tier, model_check=mc.summary() if mc else None, liveness_check=live.summary() if live else None,
               generated_scenarios=nscn, per_trace=stats, samples=samples, exhaustive=(tier == "quick" and not replay),
               checker_cmd="tlc MC_Latch (safety, liveness) ; tlc Gen_Latch ; go test -overlay harness/latch ; tlc Trace_Latch ; tlc LatchHistory")
    vlib.write_evidence(PROP, tier, seed, "model_checking", cov, time.time() - t0, nviol + len(v.known_hits),
                        assumptions=["replay drives acquireSlot/releaseSlot directly and mirrors the loops of acquire/release/run/wakeup; those loops themselves are covered by the stress histories only",
                                     "node recycling is not modelled", "liveness is proved on the model; on the code a hang is reported only when the recorded history shows nothing left to wait for"])
    return 1 if nviol else 0
