"""C14 - GC lock resolution over lock populations generated from MVCC.tla (small scan limits, splits during the scan), the
range task's sub-ranges, the delete-range task and the refusal of reads below the learned transaction safe point."""
from checks.txn_common import run_txn_check
def run(tier, seed, replay=None):
    return run_txn_check("C14", [("c14", 100, 40), ("c14rt", 200, 4000)], tier, seed, replay,
                         assumptions=["GC lock resolution is driven through the exported tikv.ResolveLocksForRange (the function KVStore.GC hands to the range task) with scan limits 1..3",
                                      "delete-range scenarios destroy data on purpose: transactional rules are not applied to them"])
