"""C20 - back-off budget and fork/merge accounting: Backoff.tla model-checked (MC_Backoff) and every
method call of retry.Backoffer recorded by the harness validated as a behaviour of Backoff.tla."""
import os, re, time, json
from lib import vlib

PROP = "C20"

def signature(ev, raw):
    if ev.get("op") == "Backoff":
        m = re.search(r'<<\s*"(\w+)",\s*"([\w:. -]+)",\s*\[lo \|-> (-?\d+), hi \|-> (-?\d+)\],\s*(TRUE|FALSE),\s*(\{[^}]*\})', raw)
        if m:
            exceeded = m.group(5) == "TRUE"
            res = ev["res"]
            if exceeded:
                return "Backoff/budget-exhausted/returned-%s" % ("nil" if res == "nil" else "passed" if res == "passed" else "other-error")
            if res in ("nil", "killed"):
                return "Backoff/sleep-or-counters-outside-model/%s" % ev["kind"]
            return "Backoff/failed-with-budget-left/%s" % res
    return "%s/result-or-counters-differ" % ev.get("op")

def run(tier, seed, replay=None):
    t0 = time.time()
    v = vlib.Verdict(PROP)
    wd = vlib.fresh_dir(PROP)
    mc = None
    if not replay:
        cfgp = os.path.join(wd, "MC_Backoff_run.cfg")
        txt = open(os.path.join(vlib.SPEC, "MC_Backoff.cfg")).read()
        # (MaxOps = 6 takes 35 minutes on 16 cores: the thorough tier deepens the validated traces instead)
        open(cfgp, "w").write(txt)
        mc = vlib.run_tlc(os.path.join(wd, "mc"), "MC_Backoff", cfg="MC_Backoff_run.cfg", workers=16, timeout=3400,
                          files={"MC_Backoff_run.cfg": cfgp})
        if not mc.ok:
            raise vlib.Infra("MC_Backoff did not pass on the specification itself (%s):\n%s" % (mc.invariant, mc.out[-2500:]))
        vlib.clean_tlc_dir(os.path.join(wd, "mc"))
        trace = os.path.join(wd, "trace.ndjson")
        n = 300 if tier == "quick" else 4000
        rc, out, _ = vlib.go_overlay_test("config/retry", {"zz_verif_test.go": os.path.join(vlib.HARNESS, "retry/zz_verif_test.go")},
                                          "TestVerifBackoff", env={"VERIF_OUT": trace, "VERIF_SEED": str(seed), "VERIF_N": str(n)},
                                          timeout=900, workdir=os.path.join(wd, "go"))
        if rc != 0 or not os.path.exists(trace):
            raise vlib.Infra("retry harness failed:\n" + out[-3000:])
    else:
        trace = replay
    events = vlib.read_ndjson(trace)
    tr = vlib.validate_trace(os.path.join(wd, "tv"), "Trace_Backoff", trace, timeout=3400)
    runs = vlib.split_runs([dict(e, ev=("reset" if e.get("op") == "reset" else "op")) for e in events])
    def run_of(line):
        for start, evs in runs:
            if start <= line < start + len(evs):
                return [{k: x[k] for k in x if k != "ev"} for x in evs[: line - start + 1]]
        return []
    for line, raw in tr.mismatches:
        ev = events[line - 1]
        v.violation(signature(ev, raw), "line %d: %s not explained by Backoff.tla; model context=%s" % (line, json.dumps(ev)[:400], re.sub(r"\s+", " ", raw)[:500]),
                    replay_events=run_of(line))
    if tr.invariant:
        v.violation("invariant/" + tr.invariant, "budget invariant %s false on a state bound from the recorded counters" % tr.invariant,
                    replay_events=events[:50])
    if tr.rejected is not None:
        ev = events[tr.rejected - 1]
        v.violation("%s/rejected" % ev.get("op"), "line %d: %s cannot be matched nor resynchronised" % (tr.rejected, json.dumps(ev)[:400]), replay_events=run_of(tr.rejected))
    nviol = v.finish()
    ops = {}
    exceeded = 0
    for e in events:
        ops[e["op"]] = ops.get(e["op"], 0) + 1
        if e["op"] == "Backoff" and e["res"] not in ("nil", "passed", "killed"):
            exceeded += 1
    nontrivial = len({json.dumps(e, sort_keys=True) for e in events if e["op"] != "reset"})
    cov = dict(states=mc.distinct if mc else 1, transitions=mc.generated if mc else 1, traces_validated_against_impl=len(runs),
               evaluations=len(events), distinct_nontrivial=nontrivial,
               rule="seeded random method sequences (New/Backoff/Clone/Fork/Merge/Reset/ResetMaxSleep/Cancel/Kill) on up to 6 live back-offers; "
                    "distinct = distinct (call, result, counters) lines; budget-exhausted answers counted separately",
               per_op=ops, budget_exhausted_answers=exceeded,
               samples=[e for e in events[1:4]] + [e for e in events if e["op"] == "Backoff" and e["res"] not in ("nil", "passed", "killed")][:2],
               model_check=mc.summary() if mc else None, trace_validation=tr.tlc.summary(),
               checker_cmd="tlc MC_Backoff ; go test -overlay harness/retry ; tlc Trace_Backoff")
    vlib.write_evidence(PROP, tier, seed, "model_checking", cov, time.time() - t0, nviol + len(v.known_hits),
                        assumptions=["sleeping is skipped by the repository's failpoint fastBackoffBySkipSleep, so cancellation *during* a sleep is not exercised",
                                     "DecorrJitter is not modelled (unused by every Config in the repository)"])
    return 1 if nviol else 0
