"""C19 - memcomparable encodings: Codec.tla (format definitions) checked exhaustively on the boundary
domain by TLC (MC_Codec), and every call of util/codec recorded by the harness validated against it."""
import os, re, time, json
from lib import vlib

PROP = "C19"

def classify(fn, ev, expected):
    # signature = function + situation of the input
    a = ev.get("a", [])
    sit = "other"
    if fn == "DecodeComparableVarint" and a and 8 <= a[0] <= 247:
        sit = "single-byte-form"
    elif fn.startswith("Decode"):
        sit = "ok-expected" if "ok |-> TRUE" in expected else "error-expected"
    elif fn.startswith("Cmp"):
        sit = "order-or-prefix"
    return "%s/%s" % (fn, sit)

def run(tier, seed, replay=None):
    t0 = time.time()
    v = vlib.Verdict(PROP)
    wd = vlib.fresh_dir(PROP)
    # 1. model level: exhaustive boundary domain
    mc = None
    if not replay:
        cfg = "MC_Codec.cfg" if tier == "quick" else "MC_Codec_thorough.cfg"
        mc = vlib.run_tlc(os.path.join(wd, "mc"), "MC_Codec", cfg=cfg, workers=16, timeout=3000)
        if not mc.ok:
            if mc.invariant:
                raise vlib.Infra("model-level property %s fails on Codec.tla itself (spec bug, not a code verdict)\n%s" % (mc.invariant, mc.out[-2000:]))
            raise vlib.Infra("TLC failed on MC_Codec:\n" + mc.out[-3000:])
        vlib.clean_tlc_dir(os.path.join(wd, "mc"))
    # 2. code level: record, validate
    if replay:
        trace = replay
    else:
        trace = os.path.join(wd, "trace.ndjson")
        rc, out, _ = vlib.go_overlay_test("util/codec", {"zz_verif_test.go": os.path.join(vlib.HARNESS, "codec/zz_verif_test.go")},
                                          "TestVerifCodec", env={"VERIF_OUT": trace, "VERIF_SEED": str(seed), "VERIF_TIER": tier},
                                          timeout=600, workdir=os.path.join(wd, "go"))
        if rc != 0 or not os.path.exists(trace):
            raise vlib.Infra("codec harness failed:\n" + out[-3000:])
    events = vlib.read_ndjson(trace)
    tv = vlib.run_tlc(os.path.join(wd, "tv"), "Trace_Codec", workers=1, timeout=3000, files={"trace.ndjson": trace})
    if not tv.ok or "INCOMPLETE" in tv.out:
        raise vlib.Infra("trace validation did not complete:\n" + tv.out[-3000:])
    fns = {}
    for e in events:
        fns[e["fn"]] = fns.get(e["fn"], 0) + 1
    for m in vlib.tlc_prints(tv.out, "MISMATCH"):
        mm = re.match(r'<<\s*"MISMATCH",\s*(\d+),\s*"(\w+)",\s*(.*)>>\s*$', m, re.S)
        line, fn, exp = int(mm.group(1)), mm.group(2), mm.group(3)
        ev = events[line - 1]
        v.violation(classify(fn, ev, exp), "%s disagrees with Codec.tla: input=%s got=%s expected=%s" % (
            fn, ev.get("a"), {k: ev.get(k) for k in ("ok", "out", "rest", "cmp", "pfx", "panic") if k in ev}, exp[:300]),
            replay_events=[ev])
    vlib.clean_tlc_dir(os.path.join(wd, "tv"))
    n = v.finish()
    distinct = len({json.dumps([e["fn"], e.get("a"), e.get("b")]) for e in events})
    cov = dict(states=(mc.distinct if mc else 1), transitions=(mc.generated if mc else 1),
               traces_validated_against_impl=1, evaluations=len(events), distinct_nontrivial=distinct,
               rule="every exported util/codec function on the model's boundary domain, seeded random values with random suffix/prefix, "
                    "and corrupted/truncated encodings; distinct = distinct (fn,input) pairs; all are non-trivial (each is compared with the spec's value)",
               per_function=fns, exhaustive=False,
               samples=[events[0], events[len(events) // 2], events[-1]],
               model_check=(mc.summary() if mc else None), trace_validation=tv.summary(),
               checker_cmd="tlc MC_Codec (16 workers) ; go test -overlay harness/codec ; tlc Trace_Codec")
    vlib.write_evidence(PROP, tier, seed, "model_checking", cov, time.time() - t0, n + len(v.known_hits),
                        assumptions=["TLC evaluates Codec.tla correctly", "Codec.tla states the format definitions (written from the format, not from the code)"])
    return 1 if n else 0
