"""C02 - a client crash at every RPC boundary of Commit (undelivered / delivered-unanswered), with companions."""
from checks.txn_common import run_txn_check
def run(tier, seed, replay=None):
    return run_txn_check("C02", [("c02", 3, 1), ("c02uni", 12, 1)], tier, seed, replay, extra_cov=dict(exhaustive=(tier == "thorough")))
