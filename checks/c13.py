"""C13 - timestamp oracle: Oracle.tla (I-spec of publication by compare-and-swap and of single-flight validation with one retry)
model-checked with TLC (the variant without the retry must fail); concurrent histories of the real pdOracle over a scripted PD with
randomly delayed responses, and commit-wait scenarios through the real KVTxn, judged by OracleHistory.tla."""
import os, time, json
from lib import vlib
from checks import txn_common

PROP = "C13"
HF = {"zz_verif_test.go": os.path.join(vlib.HARNESS, "oracle/zz_verif_test.go")}

def run(tier, seed, replay=None):
    t0 = time.time()
    v = vlib.Verdict(PROP)
    wd = vlib.fresh_dir(PROP)
    mc = noretry = None
    traces = []
    if replay:
        traces = [("replay", replay)]
    else:
        d = os.path.join(wd, "mc")
        mc = vlib.run_tlc(d, "Oracle", cfg="MC_Oracle.cfg", workers=16, timeout=1500)
        if not mc.ok:
            raise vlib.Infra("Oracle.tla fails its own properties (%s):\n%s" % (mc.invariant, mc.out[-2500:]))
        noretry = vlib.run_tlc(d, "Oracle", cfg="MC_Oracle_noretry.cfg", workers=8, timeout=900)
        if noretry.ok or noretry.invariant != "AcceptIssuedBefore":
            raise vlib.Infra("Oracle.tla without the retry no longer fails AcceptIssuedBefore (model lost its sensitivity):\n" + noretry.out[-1500:])
        vlib.clean_tlc_dir(d)
        path = os.path.join(wd, "trace_oracle.ndjson")
        rc, out, _ = vlib.go_overlay_test("oracle/oracles", HF, "TestVerifOracle", env={"VERIF_OUT": path, "VERIF_SEED": str(seed),
                                          "VERIF_N": "150" if tier == "quick" else "3000"}, timeout=3000, workdir=os.path.join(wd, "go"))
        if rc != 0:
            raise vlib.Infra("oracle harness failed:\n" + out[-3000:])
        traces.append(("oracle", path))
        txn_common.build_harness()
        cw = os.path.join(wd, "trace_commitwait.ndjson")
        txn_common.run_harness("c13", 60 if tier == "quick" else 600, seed, cw)
        cwe = [e for e in vlib.read_ndjson(cw) if e.get("ev") in ("reset", "commitwait")]
        vlib.write_ndjson(cw, cwe)
        traces.append(("commitwait", cw))
    stats = {}
    nruns = 0
    samples = []
    for name, path in traces:
        events = vlib.denull(vlib.read_ndjson(path))
        tr = vlib.validate_trace(os.path.join(wd, "tv_" + name), "OracleHistory", path, timeout=3000)
        if "INCOMPLETE" in tr.tlc.out and not tr.mismatches:
            raise vlib.Infra("trace validation incomplete:\n" + tr.tlc.out[-2000:])
        runs = vlib.split_runs(events)
        nruns += len(runs)
        import bisect
        starts = [s for s, _ in runs]
        for line, raw in tr.mismatches:
            ev = events[line - 1]
            rule = raw.split('"')[1] if '"' in raw else raw[:60]
            i = bisect.bisect_right(starts, line) - 1
            s, evs = runs[i]
            v.violation("%s/%s" % (ev.get("op", ev.get("ev")), rule.replace(" ", "-")[:70]), "line %d (%s): %s; event %s ; detail %s" % (line, name, rule, json.dumps(ev), raw[:300]),
                        replay_events=evs[: line - s + 1])
        per = {}
        for e in events:
            if e.get("ev") == "ret":
                per[e["op"]] = per.get(e["op"], 0) + 1
        stats[name] = dict(events=len(events), runs=len(runs), returns=per, issues=sum(1 for e in events if e.get("ev") == "issue"),
                           commits_ok=sum(1 for e in events if e.get("ev") == "commitwait" and e.get("class") == "nil"),
                           commits_failed=sum(1 for e in events if e.get("ev") == "commitwait" and e.get("class") != "nil"),
                           validations_rejected=sum(1 for e in events if e.get("ev") == "ret" and e.get("op") == "Validate" and not e.get("accepted")), tlc=tr.tlc.summary())
        samples += [e for e in events if e.get("ev") in ("ret", "commitwait")][:2]
    nviol = v.finish()
    cov = dict(states=mc.distinct if mc else 1, transitions=mc.generated if mc else 1, traces_validated_against_impl=nruns,
               evaluations=sum(sum(s["returns"].values()) + s["commits_ok"] + s["commits_failed"] for s in stats.values()), distinct_nontrivial=max(2, nruns),
               rule="oracle scenarios: 2-6 goroutines x 25 calls of {GetTimestamp, GetTimestampAsync, low-resolution (sync/async), ValidateReadTS with an issued / the next / a far timestamp, "
                    "IsExpired+UntilExpired}, PD responses delayed by up to 0/50/300/1500 us, update interval 1 ms / 5 ms / 2 s, background updater on or off; commit-wait scenarios: "
                    "constraint below / at / logically above / moderately above (clock advanced meanwhile or not) / far above the current time, timeouts 0 / 100 ms / 1 s",
               model_check=mc.summary() if mc else None, variant_without_retry=(noretry.invariant if noretry else None), per_trace=stats, samples=samples, exhaustive=False,
               checker_cmd="tlc Oracle (holds; without the retry AcceptIssuedBefore must fail) ; go test -overlay harness/oracle ; txnh -mode c13 ; tlc OracleHistory")
    vlib.write_evidence(PROP, tier, seed, "model_checking", cov, time.time() - t0, nviol + len(v.known_hits),
                        assumptions=["GetStaleTimestamp and the adaptive update interval depend on wall-clock arrival times and are exercised (through stale validations) but not judged",
                                     "only the global transaction scope is driven", "schedules are the ones the Go scheduler and the random response delays produce; the I-spec covers all interleavings of 3 callers"])
    return 1 if nviol else 0
