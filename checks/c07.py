"""C07 - read-your-writes over the snapshot and savepoint undo: KVUnionStore over the art buffer and a scripted
snapshot, judged by Trace_MemBuffer (union operators UGet/UIter/UIterReverse) plus MC_MemBuffer's view-restore clauses."""
from checks.c08 import run_buffer_check

def run(tier, seed, replay=None):
    return run_buffer_check("C07", "union", tier, seed, replay)
