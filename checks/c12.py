"""C12 - mock TiKV vs the reference MVCC model (MVCC.tla): model-level clauses checked exhaustively by TLC
(MC_MVCC), command paths generated from the model (Gen_MVCC: every path up to a depth, plus simulated deep
paths) and seeded random walks replayed into mocktikv.MVCCLevelDB, every answer and projection validated
by TLC against MVCC.tla (Trace_MVCC)."""
import os, re, time, json, random
from lib import vlib

PROP = "C12"

def gen_scenarios(wd, depth, simulate_n, seed, sample_mod):
    """Run the generator config; returns path of a file with one JSON command list per line."""
    cfg = open(os.path.join(vlib.SPEC, "Gen_MVCC.cfg")).read().replace("MaxDepth = 3", "MaxDepth = %d" % depth)
    gd = os.path.join(wd, "gen")
    os.makedirs(gd, exist_ok=True)
    open(os.path.join(gd, "Gen_run.cfg"), "w").write(cfg)
    r = vlib.run_tlc(gd, "MC_MVCC", cfg="Gen_run.cfg", workers=1, timeout=3000, files={})
    if not r.ok:
        raise vlib.Infra("generator run failed:\n" + r.out[-2000:])
    out = os.path.join(wd, "scenarios.jsonl")
    n = 0
    total = 0
    with open(out, "w") as f:
        for line in r.out.splitlines():
            if line.startswith('<<"SCN", "'):
                total += 1
                if sample_mod > 1 and (total + seed) % sample_mod != 0:
                    continue
                s = line[len('<<"SCN", '):-2]
                f.write(json.loads(s) + "\n")
                n += 1
        exhaustive_n = n
        if simulate_n:
            cfg2 = cfg.replace("MaxDepth = %d" % depth, "MaxDepth = 7").replace("MaxTso = 4", "MaxTso = 9").replace("VIEW VIEW_\n", "")
            open(os.path.join(gd, "Sim_run.cfg"), "w").write(cfg2)
            r2 = vlib.run_tlc(gd, "MC_MVCC", cfg="Sim_run.cfg", workers=1, timeout=1200,
                              simulate="num=%d" % simulate_n, extra=["-depth", "14", "-seed", str(seed)])
            for line in r2.out.splitlines():
                if line.startswith('<<"SCN", "'):
                    f.write(json.loads(line[len('<<"SCN", '):-2]) + "\n")
                    n += 1
    vlib.clean_tlc_dir(gd)
    return out, exhaustive_n, n - exhaustive_n, total, r

def kind(resp):
    if not isinstance(resp, dict):
        return "?"
    if "panic" in resp:
        return "panic"
    if "err" in resp:
        return str(resp["err"]).split(":")[0]
    if "errs" in resp:
        return "+".join(str(e["err"]).split(":")[0] for e in resp["errs"]) or "none"
    return "ok"

def want_kind(raw):
    m = re.search(r'errs \|-> <<(.*?)>>', raw, re.S)
    if m is not None and "err |->" in raw[:raw.find("<< <<") if "<< <<" in raw else len(raw)]:
        ks = re.findall(r'err \|-> "(\w+)"', raw[:raw.find("<< <<")] if "<< <<" in raw else raw)
        return "+".join(ks) or "none"
    m = re.search(r'err \|-> "(\w+)"', raw)
    return m.group(1) if m else "ok"

def run(tier, seed, replay=None):
    t0 = time.time()
    v = vlib.Verdict(PROP)
    wd = vlib.fresh_dir(PROP)
    mc = None
    gen_info = {}
    if replay:
        trace = replay
    else:
        cfg = open(os.path.join(vlib.SPEC, "MC_MVCC.cfg")).read()
        if tier == "thorough":
            cfg = cfg.replace("MaxDepth = 4", "MaxDepth = 5")
        os.makedirs(os.path.join(wd, "mc"), exist_ok=True)
        open(os.path.join(wd, "mc", "MC_run.cfg"), "w").write(cfg)
        mc = vlib.run_tlc(os.path.join(wd, "mc"), "MC_MVCC", cfg="MC_run.cfg", workers=16, timeout=3000)
        if not mc.ok:
            raise vlib.Infra("MC_MVCC fails on the specification itself (%s):\n%s" % (mc.invariant, mc.out[-2500:]))
        vlib.clean_tlc_dir(os.path.join(wd, "mc"))
        if tier == "quick":
            scen, nex, nsim, total, _ = gen_scenarios(wd, 3, 60, seed, 3)
            nrand, rlen = 400, 40
        else:
            scen, nex, nsim, total, _ = gen_scenarios(wd, 4, 1500, seed, 12)
            nrand, rlen = 2500, 50  # (6000 x 60 with every fifth model path needed 30 GB of memory)
        gen_info = dict(model_paths_exhaustive=nex, model_paths_total_at_depth=total, model_paths_simulated=nsim)
        trace = os.path.join(wd, "trace.ndjson")
        rc, out, _ = vlib.go_overlay_test("internal/mockstore/mocktikv", {"zz_verif_test.go": os.path.join(vlib.HARNESS, "mocktikv/zz_verif_test.go")},
                                          "TestVerifMVCC", env={"VERIF_OUT": trace, "VERIF_SEED": str(seed), "VERIF_N": str(nrand), "VERIF_LEN": str(rlen),
                                                                "VERIF_SCENARIOS": scen}, timeout=1500, workdir=os.path.join(wd, "go"))
        if rc != 0 or not os.path.exists(trace):
            raise vlib.Infra("mocktikv harness failed:\n" + out[-3000:])
    events = vlib.read_ndjson(trace)
    tr = vlib.validate_trace(os.path.join(wd, "tv"), "Trace_MVCC", trace, timeout=3400)
    if "INCOMPLETE" in tr.tlc.out:
        raise vlib.Infra("trace validation incomplete:\n" + tr.tlc.out[-2000:])
    runs = vlib.split_runs(events)
    starts = [s for s, _ in runs]
    import bisect
    def run_of(line):
        i = bisect.bisect_right(starts, line) - 1
        s, evs = runs[i]
        return evs[: line - s + 1]
    for line, raw in tr.mismatches:
        ev = events[line - 1]
        m = re.match(r'"(\w+)",\s*(.*)$', raw, re.S)
        c, rest = m.group(1), m.group(2)
        if c == "DIRECT":
            sig = "direct-clause/" + ev["cmd"]["c"]
            what = "line %d: a directly stated clause (never both committed and rolled back / scan = gets / reverse = mirror) is false on the store's projection after %s" % (line, json.dumps(ev["cmd"]))
        else:
            g, w = kind(ev["resp"]), want_kind(rest)
            sig = "%s/got=%s/want=%s" % (c, g, w) if g != w else "%s/state-or-payload-differs/%s" % (c, g)
            what = "line %d: %s answered %s; MVCC.tla: %s" % (line, json.dumps(ev["cmd"]), json.dumps(ev["resp"]), re.sub(r"\s+", " ", rest)[:600])
        v.violation(sig, what, replay_events=run_of(line))
    nviol = v.finish()
    cmds = {}
    sit = set()
    for e in events:
        if e.get("ev") == "cmd":
            c = e["cmd"]["c"]
            cmds[c] = cmds.get(c, 0) + 1
            sit.add((c, kind(e["resp"])))
    cov = dict(states=mc.distinct if mc else 1, transitions=mc.generated if mc else 1, traces_validated_against_impl=len(runs),
               evaluations=sum(cmds.values()), distinct_nontrivial=len({json.dumps(e["cmd"], sort_keys=True) + json.dumps(e["proj"], sort_keys=True) for e in events if e.get("ev") == "cmd"}),
               rule="commands executed on mocktikv.MVCCLevelDB: an edge cover of the model's state graph up to the generator depth (one scenario per transition; a seed-selected residue class of them), "
                    "TLC-simulated deep paths, seeded random walks over 4 keys / 4 transactions; distinct = distinct (command, resulting projection)",
               per_command=cmds, command_answer_kinds_seen=sorted("%s:%s" % x for x in sit), exhaustive=False,
               samples=[e for e in events if e.get("ev") == "cmd"][:2] + [e for e in events if e.get("ev") == "cmd"][-1:],
               model_check=mc.summary() if mc else None, trace_validation=tr.tlc.summary(), **gen_info,
               checker_cmd="tlc MC_MVCC ; tlc Gen_MVCC (+ -simulate) ; go test -overlay harness/mocktikv ; tlc Trace_MVCC")
    vlib.write_evidence(PROP, tier, seed, "model_checking", cov, time.time() - t0, nviol + len(v.known_hits),
                        assumptions=["MVCC.tla is the reference (TiKV semantics; corners the property does not pin are aligned with the mock and listed in the module header)",
                                     "force-lock wake-up mode, assertions other than NotExist on pessimistic locks, and the RPC handlers' region checks are not driven"])
    return 1 if nviol else 0
