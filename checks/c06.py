"""C06 - no lock of a finished transaction is left behind once the background work has drained (no lost messages)."""
from checks.txn_common import run_txn_check
def run(tier, seed, replay=None):
    return run_txn_check("C06", [("c06", 300, 5000), ("c01", 60, 1000), ("c03", 3, 1)], tier, seed, replay)
