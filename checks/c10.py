"""C10 - request sends: Sender.tla (abstract I-spec of the retry loop: per-replica attempts, back-off budget, adversarial replies)
model-checked for NoFabrication / budget / termination (the pinned 'one more chance on every NotLeader hint' variant must show the
non-terminating lasso); every fault script up to a length bound x command kind x replica-read mode x selector option x validation run
through the real RegionRequestSender against a scripted store, every attempt and outcome judged by SenderMonitor.tla."""
import os, time, json
from lib import vlib

PROP = "C10"
HF = {"zz_verif_test.go": os.path.join(vlib.HARNESS, "locate/zz_verif_test.go"),
      "zz_verif_sender_test.go": os.path.join(vlib.HARNESS, "locate/zz_verif_sender_test.go")}

def run(tier, seed, replay=None):
    t0 = time.time()
    v = vlib.Verdict(PROP)
    wd = vlib.fresh_dir(PROP)
    mc = pinned = None
    if replay:
        trace = replay
    else:
        d = os.path.join(wd, "mc")
        mc = vlib.run_tlc(d, "Sender", cfg="MC_Sender.cfg", workers=8, timeout=900)
        if not mc.ok:
            raise vlib.Infra("Sender.tla fails its own properties (%s):\n%s" % (mc.invariant, mc.out[-2500:]))
        pinned = vlib.run_tlc(d, "Sender", cfg="MC_Sender_pinned.cfg", workers=8, timeout=900)
        if pinned.ok or "Terminates" not in pinned.out:
            raise vlib.Infra("Sender.tla (pinned variant) no longer shows the non-terminating NotLeader lasso:\n" + pinned.out[-1500:])
        vlib.clean_tlc_dir(d)
        trace = os.path.join(wd, "trace.ndjson")
        env = {"VERIF_OUT": trace, "VERIF_SEED": str(seed), "VERIF_LEN": "2", "VERIF_DIV": "12" if tier == "quick" else "1",
               "VERIF_RANDOM": "400" if tier == "quick" else "6000"}
        rc, out, _ = vlib.go_overlay_test("internal/locate", HF, "TestVerifSender", env=env, timeout=3000, workdir=os.path.join(wd, "go"))
        if rc != 0:
            raise vlib.Infra("sender harness failed:\n" + out[-3000:])
    events = vlib.denull(vlib.read_ndjson(trace))
    norm = os.path.join(wd, "norm.ndjson")
    vlib.write_ndjson(norm, events)
    tr = vlib.validate_trace(os.path.join(wd, "tv"), "SenderMonitor", norm, timeout=3000)
    if "INCOMPLETE" in tr.tlc.out and not tr.mismatches:
        raise vlib.Infra("trace validation incomplete:\n" + tr.tlc.out[-2000:])
    for line, raw in tr.mismatches:
        ev = events[line - 1]
        rule = raw.split('"')[1] if '"' in raw else raw[:60]
        script = ev.get("script", [])
        # the reply kind that keeps being given when the call does not end identifies the case
        tailkind = script[-1] if ev.get("tail") == "repeat" and script else "mixed"
        if "kept re-sending" in rule or "did not return" in rule:
            sig = "spinning/%s" % tailkind
        else:
            sig = "%s/%s/%s" % (rule.replace(" ", "-")[:60], ev["cfg"]["cmd"], ev["cfg"]["mode"])
        brief = dict(cfg=ev.get("cfg"), script=script, tail=ev.get("tail"), result=ev.get("result"), attempts=len(ev.get("attempts", [])),
                     total_sleep=ev.get("total_sleep"), btimes=ev.get("btimes"))
        v.violation(sig, "line %d: %s; %s" % (line, rule, json.dumps(brief)), replay_events=[ev])
    nviol = v.finish()
    calls = [e for e in events if e.get("ev") == "call"]
    res = {}
    for e in calls:
        res[e["result"]] = res.get(e["result"], 0) + 1
    cov = dict(states=mc.distinct if mc else 1, transitions=mc.generated if mc else 1, traces_validated_against_impl=len(calls),
               evaluations=sum(len(e.get("attempts", [])) for e in calls) + len(calls), distinct_nontrivial=len({json.dumps([e["cfg"], e["script"], e["tail"]], sort_keys=True) for e in calls}),
               rule="every script of length <= 2 over 25 reply kinds (then success, or the last kind for ever) x {read, write} x {leader, follower, mixed, learner, prefer-leader, stale} x "
                    "{no option, leader-only, label match, store match} (quick: a seed-selected 1/12), read-ts validation failing for every configuration, and seeded random scripts of length 3-8 with budgets 100/2000/20000 ms",
               model_check=mc.summary() if mc else None, pinned_variant=("Terminates violated (lasso)" if pinned else None), calls=len(calls), results=res,
               attempts=sum(len(e.get("attempts", [])) for e in calls), samples=[{k: e[k] for k in e if k != "attempts"} for e in calls[:2]], exhaustive=False,
               checker_cmd="tlc Sender (fixed variant holds; pinned variant must show the lasso) ; go test -overlay harness/locate -run TestVerifSender ; tlc SenderMonitor")
    vlib.write_evidence(PROP, tier, seed, "model_checking", cov, time.time() - t0, nviol + len(v.known_hits),
                        assumptions=["the store is scripted at the client.Client boundary (no real network): connection management, batching and forwarding through proxies are not exercised",
                                     "sleeping is skipped by the repository's failpoint; a call is reported as not ending when it is still sending after 300 attempts (600 for random scripts)",
                                     "store liveness is constant 'reachable'; slow-store scoring and busy-threshold load based replica read are not driven"])
    return 1 if nviol else 0
