"""Shared driver of the transactional checks (C01, C02, C03, C04, C06): builds the harness module against /repo's
working tree, runs a scenario family through the wire gate, and lets TLC judge the recorded executions with the
property-level monitors (TxnHistory.tla, ProtocolMonitor.tla).  The design-level I-spec Percolator.tla is model-checked
in the same run (decision on the model)."""
import os, re, time, json, bisect, subprocess
from lib import vlib

BIN = os.path.join(vlib.WORK, "bin", "txnh")

def build_harness():
    os.makedirs(os.path.dirname(BIN), exist_ok=True)
    rc, out = vlib.go_run_module(os.path.join(vlib.HARNESS, "txn"), ["go", "build", "-o", BIN, "."], timeout=1500)
    if rc != 0:
        raise vlib.Infra("building harness/txn failed:\n" + out[-3000:])

def gen_fixtures(wd, depth=3):
    """MVCC fixtures: an edge cover of MC_MVCC's state graph (one command path per transition), see checks/c12.py."""
    from checks.c12 import gen_scenarios
    path, nex, nsim, total, _ = gen_scenarios(wd, depth, 0, 0, 1)
    return path, nex

def run_harness(mode, n, seed, out, timeout=1500, fixtures=None):
    e = dict(os.environ)
    tmpd = vlib._scratch_tmp(e)  # unistore leaves one directory per store under the temporary directory
    try:
        p = subprocess.run(["timeout", str(timeout), BIN, "-mode", mode, "-n", str(n), "-seed", str(seed), "-out", out] + (["-fixtures", fixtures] if fixtures else []),
                           env=e, stdout=subprocess.PIPE, stderr=subprocess.STDOUT, text=True, errors="replace")
    finally:
        import shutil
        shutil.rmtree(tmpd, ignore_errors=True)
    if p.returncode != 0 or not os.path.exists(out):
        # a Go panic whose innermost frames are the library's own (not the harness's, not the store's) is the library
        # crashing on a call sequence the harness is entitled to make: reported as a violation by the caller
        m = re.search(r"^(panic: [^\n]*)\n(?:\t[^\n]*\n|\[[^\n]*\n)*\ngoroutine \d+ \[running\]:\n((?:[^\n]+\n\t[^\n]+\n){1,4})", p.stdout, re.M)
        if m and "verif" not in m.group(1):
            frames = [l for l in m.group(2).split("\n") if l and not l.startswith("\t")]
            frames = [f for f in frames if not f.startswith(("panic(", "runtime.", "sync."))]
            if frames and frames[0].startswith("github.com/tikv/client-go/v2/") and "/internal/mockstore/" not in frames[0]:
                return "%s in %s" % (m.group(1), frames[0].split("(")[0])
        raise vlib.Infra("txn harness (%s) failed rc=%s:\n%s" % (mode, p.returncode, p.stdout[-3000:]))
    return None

def model_check(wd, tier="quick", prop=""):
    r = vlib.run_tlc(os.path.join(wd, "mc"), "MC_Percolator", workers=16, timeout=1500)
    if not r.ok:
        raise vlib.Infra("MC_Percolator fails on the specification itself (%s):\n%s" % (r.invariant, r.out[-2500:]))
    # async commit: the I-spec holds, the committer of the pinned commit (cleanup after an undetermined prewrite) must fail
    a = vlib.run_tlc(os.path.join(wd, "mc"), "AsyncCommit", cfg="MC_AsyncCommit_quick.cfg" if tier == "quick" else "MC_AsyncCommit.cfg", workers=16, timeout=1500)
    if not a.ok:
        raise vlib.Infra("AsyncCommit.tla fails its own invariants (%s):\n%s" % (a.invariant, a.out[-2500:]))
    ap = vlib.run_tlc(os.path.join(wd, "mc"), "AsyncCommit", cfg="MC_AsyncCommit_pinned.cfg", workers=8, timeout=900)
    if ap.ok or ap.invariant != "OneOutcome":
        raise vlib.Infra("AsyncCommit.tla with cleanup after an undetermined prewrite no longer violates OneOutcome:\n" + ap.out[-1500:])
    ac = vlib.run_tlc(os.path.join(wd, "mc"), "AsyncCommit", cfg="MC_AsyncCommit_check.cfg", workers=8, timeout=900)
    if ac.ok or ac.invariant != "FailHolds":
        raise vlib.Infra("AsyncCommit.tla with a non-locking existence check no longer violates FailHolds:\n" + ac.out[-1500:])
    r.async_commit = a.summary()
    if prop in ("C02", "C03"):
        # one-phase commit: the I-spec holds; keeping async commit after a fall-back, or calling a lost answer a definite failure, must fail
        o = vlib.run_tlc(os.path.join(wd, "mc"), "OnePC", cfg="MC_OnePC.cfg", workers=2, timeout=600)
        ok1 = vlib.run_tlc(os.path.join(wd, "mc"), "OnePC", cfg="MC_OnePC_keepasync.cfg", workers=2, timeout=600)
        ok2 = vlib.run_tlc(os.path.join(wd, "mc"), "OnePC", cfg="MC_OnePC_definite.cfg", workers=2, timeout=600)
        if not o.ok or ok1.ok or ok1.invariant != "AckHolds" or ok2.ok or ok2.invariant != "FailHolds":
            raise vlib.Infra("OnePC.tla: the specification must hold and its two variants must fail AckHolds / FailHolds:\n" + o.out[-800:] + ok1.out[-800:] + ok2.out[-800:])
        r.one_pc = o.summary()
    vlib.clean_tlc_dir(os.path.join(wd, "mc"))
    return r

def run_txn_check(prop, families, tier, seed, replay, monitors=("TxnHistory",), rule_filter=None, extra_cov=None, assumptions=None):
    """families: list of (mode, n_quick, n_thorough)."""
    t0 = time.time()
    v = vlib.Verdict(prop)
    wd = vlib.fresh_dir(prop)
    mc = None
    traces = []
    if replay:
        traces = [("replay", replay)]
    else:
        mc = model_check(wd, tier, prop)
        build_harness()
        fixtures = None
        for mode, nq, nt in families:
            raw = os.path.join(wd, "raw_%s.ndjson" % mode)
            if mode in ("c05", "c14") and fixtures is None:
                fixtures, nfix = gen_fixtures(wd, 3 if tier == "quick" else 4)
                extra_cov = dict(extra_cov or {}, fixtures_generated=nfix)
            crash = run_harness(mode, nq if tier == "quick" else nt, seed, raw, fixtures=fixtures if mode in ("c05", "c14") else None)
            if crash:
                tail = vlib.read_ndjson_lenient(raw)[-60:] if os.path.exists(raw) else []
                v.violation("crash/" + re.sub(r"[^a-z0-9]+", "-", crash.lower())[:80] + "/" + mode, "the client library panicked under the %s workload: %s" % (mode, crash),
                            replay_events=[{k: e[k] for k in e if k not in ("proj", "truth")} for e in tail])
                continue
            traces.append((mode, raw))
    stats = {}
    samples = []
    total_runs = 0
    nontrivial = 0
    for mode, raw in traces:
        events = vlib.hoist_truth(vlib.denull(vlib.read_ndjson(raw)))
        tpath = os.path.join(wd, "trace_%s.ndjson" % mode)
        vlib.write_ndjson(tpath, events)
        runs = vlib.split_runs(events)
        starts = [s for s, _ in runs]
        def run_of(line):
            i = bisect.bisect_right(starts, line) - 1
            s, evs = runs[i]
            return [{k: x[k] for k in x if k != "truth"} for x in evs[: line - s + 1]]
        st = dict(events=len(events), scenarios=len(runs), rpcs=sum(1 for e in events if e.get("ev") == "rpc"),
                  faults=sum(1 for e in events if e.get("ev") == "rpc" and e.get("fault") not in (None, "none")))
        for mon in monitors:
            tr = vlib.validate_trace(os.path.join(wd, "tv_%s_%s" % (mode, mon)), mon, tpath, timeout=3000)
            if "INCOMPLETE" in tr.tlc.out:
                raise vlib.Infra("trace validation incomplete (%s on %s):\n%s" % (mon, mode, tr.tlc.out[-2500:]))
            st[mon] = tr.tlc.summary()
            for line, rawmsg in tr.mismatches:
                m = re.match(r'"([^"]+)"', rawmsg)
                rule = m.group(1) if m else rawmsg[:80]
                if rule_filter and not rule_filter(rule):
                    continue
                ev = events[line - 1]
                ctx = runs[bisect.bisect_right(starts, line) - 1][1][0]
                sig = "%s/%s/%s" % (mon, re.sub(r"[^a-z0-9]+", "-", rule.lower())[:70], ctx.get("kind", mode))
                if ev.get("c") in ("snap_riter", "riter") and ev.get("hi") == 0:
                    sig += "/reverse-scan-from-the-unbounded-end"
                v.violation(sig, "line %d of %s trace: %s; event=%s; detail=%s" % (line, mode, rule, json.dumps({k: ev[k] for k in ev if k not in ("proj", "truth")})[:300],
                                                                               re.sub(r"\s+", " ", rawmsg)[:400]), replay_events=run_of(line))
        stats[mode] = st
        total_runs += len(runs)
        nontrivial += len({json.dumps({k: r0[k] for k in r0 if k not in ("seq", "truth", "hastruth")}, sort_keys=True) for _, (r0, *_) in [(0, evs) for _, evs in runs]})
        samples.append({k: runs[len(runs) // 2][1][0][k] for k in runs[len(runs) // 2][1][0] if k != "truth"})
        samples += [{k: e[k] for k in e if k != "proj"} for e in runs[len(runs) // 2][1][1:4]]
    nviol = v.finish()
    cov = dict(states=mc.distinct if mc else 1, transitions=mc.generated if mc else 1, traces_validated_against_impl=total_runs,
               evaluations=sum(s["events"] for s in stats.values()), distinct_nontrivial=max(2, nontrivial),
               rule="scenarios executed on the real client over mocktikv through the wire gate; distinct = distinct scenario descriptors "
                    "(shape / layout / mode / fault position / companion or seed-generated workload)",
               per_family=stats, samples=samples, model_check=mc.summary() if mc else None, async_commit_model_check=getattr(mc, "async_commit", None) if mc else None, one_pc_model_check=getattr(mc, "one_pc", None) if mc else None,
               checker_cmd="tlc MC_Percolator ; tlc AsyncCommit (holds; pinned committer must fail OneOutcome, a non-locking check must fail FailHolds) ; go build harness/txn ; txnh -mode ... ; tlc " + " ; tlc ".join(monitors))
    cov.update(extra_cov or {})
    vlib.write_evidence(prop, tier, seed, "model_checking", cov, time.time() - t0, nviol + len(v.known_hits),
                        assumptions=(assumptions or []) + ["stores: the in-repo mock TiKV (two-phase commit, optimistic and pessimistic, virtual time) and, for the families whose name ends in 'uni', tidb's unistore (async commit and 1PC as well; wall-clock TSO, so locks only expire for GC-style forced resolution); unistore itself is trusted where it is faithful to TiKV - three places where it is not are excluded (DESIGN 10.4)",
                                                        "time is virtual: lock expiry is driven by the harness's TSO clock, back-off sleeps are skipped by the repository's failpoint"])
    return 1 if nviol else 0
