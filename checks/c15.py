"""C15 - keyspace (API v2): Keyspace.tla (prefix mapping, ranges, disjointness, order) model-checked by MC_Keyspace; the command
catalogue enumerated by reflection from tikvrpc and run through the real codec v2 (both modes, four keyspace ids), every bytes field
of every request / response judged by TLC with the model's Enc (KeyspaceCatalogue.tla); the transactional model check re-run
inside a keyspace (and next to a second keyspace on the same store) with the same P-spec."""
import os, time, json, re
from lib import vlib
from checks import txn_common

PROP = "C15"
HF = {"zz_verif_test.go": os.path.join(vlib.HARNESS, "apicodec/zz_verif_test.go")}

def run(tier, seed, replay=None):
    t0 = time.time()
    v = vlib.Verdict(PROP)
    wd = vlib.fresh_dir(PROP)
    mc = None
    e2e = None
    if replay:
        trace = replay
    else:
        d = os.path.join(wd, "mc")
        mc = vlib.run_tlc(d, "MC_Keyspace", cfg="MC_Keyspace.cfg", workers=8, timeout=900)
        if not mc.ok:
            raise vlib.Infra("MC_Keyspace fails on the specification itself (%s):\n%s" % (mc.invariant, mc.out[-2500:]))
        vlib.clean_tlc_dir(d)
        trace = os.path.join(wd, "trace.ndjson")
        rc, out, _ = vlib.go_overlay_test("internal/apicodec", HF, "TestVerifKeyspaceCatalogue", env={"VERIF_OUT": trace}, timeout=900, workdir=os.path.join(wd, "go"))
        if rc != 0:
            raise vlib.Infra("catalogue harness failed:\n" + out[-3000:])
    events = vlib.denull(vlib.read_ndjson(trace))
    norm = os.path.join(wd, "norm.ndjson")
    vlib.write_ndjson(norm, events)
    tr = vlib.validate_trace(os.path.join(wd, "tv"), "KeyspaceCatalogue", norm, timeout=1800)
    if "INCOMPLETE" in tr.tlc.out and not tr.mismatches:
        raise vlib.Infra("trace validation incomplete:\n" + tr.tlc.out[-2000:])
    for line, raw in tr.mismatches:
        ev = events[line - 1]
        rule = raw.split('"')[1] if '"' in raw else raw[:60]
        path = re.sub(r"\[\d+\]", "[]", ev.get("path", ""))
        top = path.split(".")[1] if "." in path else ""
        sig = "%s/%s/%s" % (ev.get("ev"), ev.get("cmd"), top)
        v.violation(sig, "line %d: %s; command %s field %s (mode %s): %s" % (line, rule, ev.get("cmd"), path, ev.get("mode"), json.dumps({k: ev[k] for k in ev if k in ("in", "out", "logical", "class", "err")})),
                    replay_events=[ev])
    if not replay:
        e2e = txn_e2e(wd, tier, seed, v)
    nviol = v.finish()
    cmds = {e["cmd"] for e in events if e.get("ev") == "cmd"}
    cov = dict(states=mc.distinct if mc else 1, transitions=mc.generated if mc else 1, traces_validated_against_impl=1 + (e2e or {}).get("runs", 0),
               evaluations=sum(1 for e in events if e.get("ev") in ("reqfield", "respfield", "cmd")) + (e2e or {}).get("events", 0), distinct_nontrivial=len(cmds),
               rule="every CmdType whose String() is not Unknown (found by scanning 0..4095), 2 modes x keyspace ids {0, 1, 4242, 0xFFFFFE}; request and response messages filled by "
                    "walking the Go structs (bytes fields whose name ends in Key/Keys or is PrimaryLock/Primary/Secondaries/Start/End carry keys; region descriptions carry region keys)",
               commands=len(cmds), request_fields=sum(1 for e in events if e.get("ev") == "reqfield"), response_fields=sum(1 for e in events if e.get("ev") == "respfield"),
               key_fields=sum(1 for e in events if e.get("ev") in ("reqfield", "respfield") and e.get("key")), model_check=mc.summary() if mc else None, end_to_end=e2e,
               samples=[e for e in events if e.get("ev") == "reqfield"][:2], exhaustive=True,
               checker_cmd="tlc MC_Keyspace ; go test -overlay harness/apicodec ; tlc KeyspaceCatalogue ; txnh -mode c01 -keyspace ; tlc TxnHistory")
    vlib.write_evidence(PROP, tier, seed, "model_checking", cov, time.time() - t0, nviol + len(v.known_hits),
                        assumptions=["which bytes fields carry keys is decided by field name (listed above); the Compact command's StartKey (a TiFlash-internal cursor) is excluded; "
                                     "streaming coprocessor responses are documented as unsupported by codec v2 and not decoded",
                                     "the end-to-end part re-runs the transactional workload (C01 family) inside a keyspace; the raw workload (C11) is not re-run under API v2"])
    return 1 if nviol else 0

def txn_e2e(wd, tier, seed, v):
    """the C01 workload inside keyspace 4242 while a second keyspace writes to the same store: the same P-spec must accept it"""
    txn_common.build_harness()
    raw = os.path.join(wd, "raw_ks.ndjson")
    txn_common.run_harness("c01ks", 60 if tier == "quick" else 1200, seed, raw, timeout=3000)
    events = vlib.hoist_truth(vlib.denull(vlib.read_ndjson(raw)))
    tpath = os.path.join(wd, "trace_ks.ndjson")
    vlib.write_ndjson(tpath, events)
    tr = vlib.validate_trace(os.path.join(wd, "tv_ks"), "TxnHistory", tpath, timeout=3000)
    if "INCOMPLETE" in tr.tlc.out and not tr.mismatches:
        raise vlib.Infra("trace validation incomplete (keyspace run):\n" + tr.tlc.out[-2000:])
    runs = vlib.split_runs(events)
    import bisect
    starts = [s for s, _ in runs]
    for line, raw_ in tr.mismatches:
        ev = events[line - 1]
        rule = raw_.split('"')[1] if '"' in raw_ else raw_[:60]
        i = bisect.bisect_right(starts, line) - 1
        s, evs = runs[i]
        v.violation("keyspace-e2e/" + rule.replace(" ", "-")[:70], "line %d of the keyspace run: %s; event=%s" % (line, rule, json.dumps({k: ev[k] for k in ev if k not in ("proj", "truth")})[:400]),
                    replay_events=evs[: line - s + 1])
    return dict(runs=len(runs), events=len(events), foreign_writes=sum(1 for e in events if e.get("ev") == "foreign_write"), tlc=tr.tlc.summary())
