"""C01 - snapshot isolation, write-write exclusion, insert semantics, locking reads, external consistency.
Families: c01 / c06 on mocktikv (two-phase commit), c01uni = the c01 workload on unistore with async commit and 1PC requested by most transactions."""
from checks.txn_common import run_txn_check
def run(tier, seed, replay=None):
    return run_txn_check("C01", [("c01", 300, 4000), ("c06", 250, 3000), ("c01uni", 120, 2500)], tier, seed, replay)
