"""C01 - snapshot isolation, write-write exclusion, insert semantics, locking reads, external consistency."""
from checks.txn_common import run_txn_check
def run(tier, seed, replay=None):
    return run_txn_check("C01", [("c01", 300, 4000), ("c06", 250, 3000)], tier, seed, replay)
