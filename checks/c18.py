"""C18 - batched RPC multiplexing: BatchRPC.tla (I-spec: ids never reused, dispatch by id, stream failure fails all pending entries,
late answers dropped) model-checked with TLC (the id-reusing variant must fail); concurrent callers of the real RPCClient against an
echoing, shuffling, skipping, stream-dropping mock gRPC server, every call judged by BatchRPCHistory.tla."""
import os, time, json
from lib import vlib

PROP = "C18"
HF = {"zz_verif_test.go": os.path.join(vlib.HARNESS, "client/zz_verif_test.go")}

def run(tier, seed, replay=None):
    t0 = time.time()
    v = vlib.Verdict(PROP)
    wd = vlib.fresh_dir(PROP)
    mc = reuse = None
    if replay:
        trace = replay
    else:
        d = os.path.join(wd, "mc")
        mc = vlib.run_tlc(d, "BatchRPC", cfg="MC_BatchRPC.cfg" if tier == "quick" else "MC_BatchRPC_thorough.cfg", workers=16, timeout=1500)
        if not mc.ok:
            raise vlib.Infra("BatchRPC.tla fails its own invariants (%s):\n%s" % (mc.invariant, mc.out[-2500:]))
        reuse = vlib.run_tlc(d, "BatchRPC", cfg="MC_BatchRPC_reuse.cfg", workers=8, timeout=900)
        if reuse.ok or reuse.invariant != "OwnResponse":
            raise vlib.Infra("BatchRPC.tla with reused ids no longer violates OwnResponse (model lost its sensitivity):\n" + reuse.out[-1500:])
        vlib.clean_tlc_dir(d)
        trace = os.path.join(wd, "trace.ndjson")
        rc, out, _ = vlib.go_overlay_test("internal/client", HF, "TestVerifBatchRPC", env={"VERIF_OUT": trace, "VERIF_SEED": str(seed),
                                          "VERIF_N": "60" if tier == "quick" else "1200"}, timeout=3000, workdir=os.path.join(wd, "go"))
        if rc != 0:
            if not os.path.exists(trace) or os.path.getsize(trace) == 0 or "panic" not in out:
                raise vlib.Infra("batch rpc harness failed:\n" + out[-3000:])
            v.violation("crash/panic", "the process died inside the batch client: " + out[-800:], replay_events=vlib.read_ndjson(trace)[-40:])
    events = vlib.denull(vlib.read_ndjson(trace))
    norm = os.path.join(wd, "norm.ndjson")
    vlib.write_ndjson(norm, events)
    tr = vlib.validate_trace(os.path.join(wd, "tv"), "BatchRPCHistory", norm, timeout=3000)
    if "INCOMPLETE" in tr.tlc.out and not tr.mismatches:
        raise vlib.Infra("trace validation incomplete:\n" + tr.tlc.out[-2000:])
    runs = vlib.split_runs(events)
    import bisect
    starts = [s for s, _ in runs]
    for line, raw in tr.mismatches:
        ev = events[line - 1]
        rule = raw.split('"')[1] if '"' in raw else raw[:60]
        i = bisect.bisect_right(starts, line) - 1
        s, evs = runs[i]
        v.violation("call/" + rule.replace(" ", "-")[:70], "line %d: %s; %s" % (line, rule, json.dumps(ev)), replay_events=[evs[0], ev])
    nviol = v.finish()
    calls = [e for e in events if e.get("ev") == "call"]
    res = {}
    for e in calls:
        k = e["outcome"] if e["outcome"] == "resp" else "err:" + e.get("err", "")[-40:].split(")")[-1].strip()[:30]
        res[k] = res.get(k, 0) + 1
    cov = dict(states=mc.distinct if mc else 1, transitions=mc.generated if mc else 1, traces_validated_against_impl=len(runs), evaluations=len(calls),
               distinct_nontrivial=len(calls),
               rule="per scenario 2-11 goroutines x 12 Get calls with distinct keys, priorities normal/low/high, time-outs 30/100/400 ms, a fifth cancelled at a random moment, a sixth "
                    "forwarded; server: responses of a batch shuffled, 0/2/10% of the requests never answered, batches delayed up to 0/2/10 ms, the stream dropped with probability "
                    "0/2/10% per batch; max batch size 128/8/2, 1-2 connections; a quarter of the scenarios close the client after 5-44 ms",
               model_check=mc.summary() if mc else None, variant_reusing_ids=(reuse.invariant if reuse else None), calls=len(calls), results=res,
               stream_drops=sum(e.get("drops", 0) for e in events if e.get("ev") == "end"), unanswered=sum(e.get("skips", 0) for e in events if e.get("ev") == "end"),
               max_over_timeout_ms=max([e["latency_ms"] - e["timeout_ms"] for e in calls] or [0]), samples=calls[:2], exhaustive=False,
               checker_cmd="tlc BatchRPC (holds; with reused ids OwnResponse must fail) ; go test -overlay harness/client ; tlc BatchRPCHistory")
    vlib.write_evidence(PROP, tier, seed, "model_checking", cov, time.time() - t0, nviol + len(v.known_hits),
                        assumptions=["the server is the repository's mock gRPC service on the loopback interface with a scripted BatchCommands handler",
                                     "'never blocks beyond its time-out' is judged with 1.5 s of slack for the Go scheduler and the machine's load",
                                     "forwarding only sets the forwarded-host metadata (the mock server ignores it); request collapsing and the async API are not driven"])
    return 1 if nviol else 0
