"""C05 - snapshot reads (point, batch, forward and reverse scan) over MVCC histories generated from MVCC.tla, with leftover
locks of every kind, layouts, batch sizes, key-only, cold/warm cache, moved snapshot timestamps and mid-scan splits."""
from checks.txn_common import run_txn_check
def run(tier, seed, replay=None):
    return run_txn_check("C05", [("c05", 150, 120)], tier, seed, replay,
                         assumptions=["reads at the max timestamp are recorded but not compared (special rules of the code apply)",
                                      "key-only scans are compared on keys only"])
