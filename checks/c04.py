"""C04 - the request stream obeys Percolator ordering and timestamp rules: ProtocolMonitor.tla on every trace family of the
transactional engine plus the dedicated enumeration (shapes x layouts x tiny batch size x region errors / splits that force
re-grouping, heart-beats under a shortened managed TTL)."""
from checks.txn_common import run_txn_check
def run(tier, seed, replay=None):
    return run_txn_check("C04", [("c04", 3, 1), ("c01", 120, 2000), ("c02", 8, 2), ("c03", 8, 2), ("c06", 100, 1500), ("c01uni", 100, 1500), ("c02uni", 24, 3), ("c03uni", 24, 3)], tier, seed, replay,
                         monitors=("ProtocolMonitor",),
                         assumptions=["'advised TTL exceeds the transaction's age' is not checked (age is the client's wall-clock uptime; the harness clock is virtual)",
                                      "one heart-beat after the end of a transaction is tolerated"])
