"""C11 - raw KV as one ordered map: RawKV.tla (P-spec: ordered map; I-spec: the region-walking client) model-checked
by MC_RawKV over every store, layout, stale cache, call and topology change; seeded call sequences through the real
rawkv.Client over mocktikv with splits/merges/leader transfers injected at the wire, judged line by line by Trace_RawKV."""
import os, time, json, bisect
from lib import vlib

PROP = "C11"
HF = {"zz_verif_test.go": os.path.join(vlib.HARNESS, "rawkv/zz_verif_test.go")}

def run(tier, seed, replay=None):
    t0 = time.time()
    v = vlib.Verdict(PROP)
    wd = vlib.fresh_dir(PROP)
    mc = live = None
    crash = None
    if replay:
        trace = replay
    else:
        d = os.path.join(wd, "mc")
        mc = vlib.run_tlc(d, "MC_RawKV", cfg="MC_RawKV.cfg" if tier == "quick" else "MC_RawKV_thorough.cfg", workers=16, timeout=1500)
        if not mc.ok:
            raise vlib.Infra("MC_RawKV fails on the specification itself (%s):\n%s" % (mc.invariant, mc.out[-2500:]))
        live = vlib.run_tlc(d, "MC_RawKV", cfg="MC_RawKV_live.cfg", workers=16, timeout=600)
        if not live.ok:
            raise vlib.Infra("liveness check of MC_RawKV failed (%s):\n%s" % (live.invariant, live.out[-2500:]))
        vlib.clean_tlc_dir(d)
        trace = os.path.join(wd, "trace.ndjson")
        rc, out, _ = vlib.go_overlay_test("rawkv", HF, "TestVerifRawKV", env={"VERIF_OUT": trace, "VERIF_SEED": str(seed),
                                          "VERIF_N": "120" if tier == "quick" else "6000", "VERIF_OPS": "30"}, timeout=2400, workdir=os.path.join(wd, "go"))
        if rc != 0:
            if not os.path.exists(trace) or os.path.getsize(trace) == 0:
                raise vlib.Infra("rawkv harness failed:\n" + out[-3000:])
            crash = out[-2500:]
    events = vlib.denull(vlib.read_ndjson(trace))
    norm = os.path.join(wd, "trace_norm.ndjson")
    vlib.write_ndjson(norm, events)
    tr = vlib.validate_trace(os.path.join(wd, "tv"), "Trace_RawKV", norm, timeout=2400)
    if "INCOMPLETE" in tr.tlc.out and not tr.mismatches:
        raise vlib.Infra("trace validation incomplete:\n" + tr.tlc.out[-2000:])
    runs = vlib.split_runs(events)
    starts = [s for s, _ in runs]
    def run_of(line):
        i = bisect.bisect_right(starts, line) - 1
        s, evs = runs[i]
        return evs[: line - s + 1]
    for line, raw in tr.mismatches:
        ev = events[line - 1]
        if ev.get("ev") == "rpc":
            sig = "rpc/misrouted/%s" % ev.get("cmd")
            what = "line %d: region [%s,%s) accepted a %s request naming keys it does not hold: %s" % (line, ev.get("rs"), ev.get("re"), ev.get("cmd"), json.dumps(ev))
        else:
            kind = "error" if ev.get("err") else "result"
            sig = "op/%s/%s" % (ev.get("op"), kind)
            what = "line %d: %s differs from the same call on one ordered map; call %s ; expected (reply, content) %s" % (line, ev.get("op"), json.dumps(ev)[:600], raw[:400])
        v.violation(sig, what, replay_events=run_of(line))
    if crash and not replay:
        last = runs[-1][1] if runs else []
        if "panic" in crash:
            v.violation("crash/panic", "the process died inside a raw KV call: " + crash[-600:], replay_events=last)
        elif not v.viol:
            raise vlib.Infra("rawkv harness failed:\n" + crash)
    nviol = v.finish()
    ops = [e for e in events if e.get("ev") == "op"]
    rpcs = [e for e in events if e.get("ev") == "rpc"]
    per_op = {}
    for e in ops:
        per_op[e["op"]] = per_op.get(e["op"], 0) + 1
    cov = dict(states=mc.distinct if mc else 1, transitions=mc.generated if mc else 1, traces_validated_against_impl=len(runs),
               evaluations=len(ops) + len(rpcs), distinct_nontrivial=len({json.dumps(e, sort_keys=True) for e in ops}),
               rule="seeded scenarios: 8 keys drawn from a pool with prefix/zero-byte/0xff keys, 0-5 initial splits, optional cache warm-up followed by "
                    "topology changes behind the client's back, 30 calls each; before every RPC a split/merge/leader transfer is injected with probability 0/0.1/0.3/0.6",
               model_check=mc.summary() if mc else None, liveness_check=live.summary() if live else None,
               calls=len(ops), per_op=per_op, rpcs=len(rpcs), rpcs_rejected=sum(1 for e in rpcs if not e.get("accepted")),
               topology_changes=sum(1 for e in events if e.get("ev") == "topo"), tlc_trace=tr.tlc.summary(),
               samples=ops[:2], exhaustive=False,
               checker_cmd="tlc MC_RawKV (safety; liveness at NKeys=2) ; go test -overlay harness/rawkv ; tlc Trace_RawKV")
    vlib.write_evidence(PROP, tier, seed, "model_checking", cov, time.time() - t0, nviol + len(v.known_hits),
                        assumptions=["the store is mocktikv: TTL expiry is not observable (a put with TTL is judged as a put)",
                                     "key-only scans: keys are judged exactly, a value may be empty or the stored one (mocktikv ignores key_only)",
                                     "a reverse scan from the empty key is documented as unsupported and is not driven",
                                     "mocktikv does not check key-in-region for raw point/batch requests; the routing rule is therefore checked by the wire gate"])
    return 1 if nviol else 0
