"""C16 - pipelined transactions: Pipelined.tla (reference of the three-tier buffer and its flush protocol) against the real
PipelinedMemDB with a scripted flush function (Trace_Pipelined), and pipelined transactions on unistore (Flush RPC) judged by the
property-level monitor PipelinedTxn.tla (reads, flush stream, outcome of the whole flushed key range)."""
import os, time, json, bisect
from lib import vlib
from checks import txn_common

PROP = "C16"
HF = {"zz_verif_pipelined_test.go": os.path.join(vlib.HARNESS, "unionstore/zz_verif_pipelined_test.go")}

def run(tier, seed, replay=None):
    t0 = time.time()
    v = vlib.Verdict(PROP)
    wd = vlib.fresh_dir(PROP)
    traces = []
    if replay:
        mod = "PipelinedTxn" if '"ev":"final"' in open(replay).read().replace(" ", "") else "Trace_Pipelined"
        traces = [("replay", replay, mod)]
    else:
        buf = os.path.join(wd, "trace_buffer.ndjson")
        rc, out, _ = vlib.go_overlay_test("internal/unionstore", HF, "TestVerifPipelined", env={"VERIF_OUT": buf, "VERIF_SEED": str(seed),
                                          "VERIF_N": "600" if tier == "quick" else "12000"}, timeout=3000, workdir=os.path.join(wd, "go"))
        if rc != 0:
            # a scenario that never ends is recorded by the harness itself ("hang"); the test binary then fails on the leaked
            # goroutines, which is expected: judge the recorded history
            if not (os.path.exists(buf) and '"ev":"hang"' in open(buf).read()):
                raise vlib.Infra("pipelined buffer harness failed:\n" + out[-3000:])
        traces.append(("buffer", buf, "Trace_Pipelined"))
        txn_common.build_harness()
        tx = os.path.join(wd, "trace_txn.ndjson")
        txn_common.run_harness("c16", 400 if tier == "quick" else 8000, seed, tx, timeout=3000)
        traces.append(("txn", tx, "PipelinedTxn"))
    stats = {}
    nruns = 0
    samples = []
    for name, path, module in traces:
        events = vlib.denull(vlib.read_ndjson(path))
        norm = os.path.join(wd, "norm_%s.ndjson" % name)
        vlib.write_ndjson(norm, events)
        tr = vlib.validate_trace(os.path.join(wd, "tv_" + name), module, norm, timeout=3000)
        if "INCOMPLETE" in tr.tlc.out and not tr.mismatches:
            raise vlib.Infra("trace validation incomplete:\n" + tr.tlc.out[-2000:])
        runs = vlib.split_runs(events)
        nruns += len(runs)
        starts = [s for s, _ in runs]
        for line, raw in tr.mismatches:
            ev = events[line - 1]
            rule = raw.split('"')[1] if '"' in raw else raw[:60]
            i = bisect.bisect_right(starts, line) - 1
            s, evs = runs[i]
            sig = "%s/%s/%s" % (name, ev.get("op", ev.get("ev")), rule.replace(" ", "-")[:70])
            v.violation(sig, "line %d (%s): %s; event %s ; detail %s" % (line, name, rule, json.dumps(ev)[:400], raw[:400]), replay_events=evs[: line - s + 1])
        per = {}
        for e in events:
            if e.get("ev") == "op":
                per[e["op"]] = per.get(e["op"], 0) + 1
        stats[name] = dict(events=len(events), runs=len(runs), ops=per, flush_calls=sum(1 for e in events if e.get("ev") in ("flushcall", "flushrpc")),
                           failed_flushes=sum(1 for e in events if e.get("ev") == "flushdone" and not e.get("ok")),
                           commits=sum(1 for e in events if e.get("ev") == "end" and e.get("kind") == "commit"), rollbacks=sum(1 for e in events if e.get("ev") == "end" and e.get("kind") == "rollback"),
                           tlc=tr.tlc.summary())
        samples += [e for e in events if e.get("ev") in ("op", "final")][:2]
    nviol = v.finish()
    cov = dict(states=1, transitions=1, traces_validated_against_impl=nruns, evaluations=sum(sum(s["ops"].values()) + s["flush_calls"] for s in stats.values()), distinct_nontrivial=max(2, nruns),
               rule="buffer level: 40-step programs of set/delete/get/get-local/batch-get/flush (forced or threshold 1/2/3 keys)/flush-wait/staging over 4 keys; the flush in flight is let "
                    "finish (success 5/6, failure 1/6) before, between or after the following calls. Transaction level: pipelined transactions on unistore over layouts with borders at keys 2-5, "
                    "1-11 calls (a quarter flush a single key), forced flushes, commit or rollback, then the store's buffer tier and a fresh snapshot are inspected",
               per_trace=stats, samples=samples, exhaustive=False,
               checker_cmd="go test -overlay harness/unionstore -run TestVerifPipelined ; tlc Trace_Pipelined ; txnh -mode c16 (unistore) ; tlc PipelinedTxn")
    vlib.write_evidence(PROP, tier, seed, "exploration", cov, time.time() - t0, nviol + len(v.known_hits),
                        assumptions=["the reference model Pipelined.tla is deterministic and is not model-checked on its own: its content is the statement of the read order and of the flush protocol",
                                     "transaction level uses unistore (tidb's in-process store), the only store here that implements Flush; no region errors or splits are injected during a pipelined transaction",
                                     "memory-size driven flush thresholds and write throttling are not driven (key-count threshold only)"])
    return 1 if nviol else 0
