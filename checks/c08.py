"""C08 - both transaction write buffers (art, rbt) vs the reference MemBuffer.tla: model-level consistency and
undo clauses by TLC (MC_MemBuffer); the same seeded op stream applied to both implementations over adversarial
key universes, every result and API-level projection validated by TLC (Trace_MemBuffer).
C07 re-uses this module in 'union' mode (KVUnionStore over the art buffer and a scripted snapshot)."""
import os, re, time, json, bisect
from lib import vlib

def run_buffer_check(prop, mode, tier, seed, replay):
    t0 = time.time()
    v = vlib.Verdict(prop)
    wd = vlib.fresh_dir(prop)
    mc = None
    if replay:
        trace = replay
    else:
        cfg = open(os.path.join(vlib.SPEC, "MC_MemBuffer.cfg")).read()
        if tier == "thorough":
            cfg = cfg.replace("MaxOps = 4", "MaxOps = 5")
        d = os.path.join(wd, "mc")
        os.makedirs(d, exist_ok=True)
        open(os.path.join(d, "MC_run.cfg"), "w").write(cfg)
        mc = vlib.run_tlc(d, "MC_MemBuffer", cfg="MC_run.cfg", workers=16, timeout=3000)
        if not mc.ok:
            raise vlib.Infra("MC_MemBuffer fails on the specification itself (%s):\n%s" % (mc.invariant, mc.out[-2500:]))
        vlib.clean_tlc_dir(d)
        trace = os.path.join(wd, "trace.ndjson")
        n = (120 if tier == "quick" else 1500)
        rc, out, _ = vlib.go_overlay_test("internal/unionstore", {"zz_verif_test.go": os.path.join(vlib.HARNESS, "unionstore/zz_verif_test.go")},
                                          "TestVerifMemBuffer", env={"VERIF_OUT": trace, "VERIF_SEED": str(seed), "VERIF_N": str(n), "VERIF_MODE": mode},
                                          timeout=1500, workdir=os.path.join(wd, "go"))
        if rc != 0 or not os.path.exists(trace):
            raise vlib.Infra("unionstore harness failed:\n" + out[-3000:])
    events = vlib.read_ndjson(trace)
    tr = vlib.validate_trace(os.path.join(wd, "tv"), "Trace_MemBuffer", trace, timeout=3400)
    if "INCOMPLETE" in tr.tlc.out:
        raise vlib.Infra("trace validation incomplete:\n" + tr.tlc.out[-2000:])
    runs = vlib.split_runs(events)
    starts = [s for s, _ in runs]
    def run_of(line):
        i = bisect.bisect_right(starts, line) - 1
        s, evs = runs[i]
        return evs[: line - s + 1]
    for line, raw in tr.mismatches:
        ev = events[line - 1]
        m = re.match(r'"(\w+)",\s*"(\w+)",\s*"(\w+)"', raw)
        impl, op, want = (m.group(1), m.group(2), m.group(3)) if m else ("?", ev.get("op"), "?")
        got = ev.get("res")
        if got != want:
            sig = "%s/%s/got=%s/want=%s" % (impl, op, got, want)
        else:
            p = ev.get("proj", {})
            mm = re.search(r'len \|-> (-?\d+), size \|-> (-?\d+)', raw)
            acct = bool(mm) and (int(mm.group(1)) != p.get("len") or int(mm.group(2)) != p.get("size"))
            sig = "%s/%s/%s" % (impl, op, "len-size-accounting" if acct else "result-or-view-differs")
        v.violation(sig, "line %d (%s): %s; MemBuffer.tla expects %s" % (line, impl, json.dumps({k: ev[k] for k in ev if k != "proj"})[:500], re.sub(r"\s+", " ", raw)[:500]),
                    replay_events=run_of(line))
    nviol = v.finish()
    ops = {}
    for e in events:
        if e.get("ev") == "op":
            ops[e["op"]] = ops.get(e["op"], 0) + 1
    distinct = len({json.dumps({k: e[k] for k in e if k != "ev"}, sort_keys=True) for e in events if e.get("ev") == "op"})
    cov = dict(states=mc.distinct if mc else 1, transitions=mc.generated if mc else 1, traces_validated_against_impl=len(runs),
               evaluations=sum(ops.values()), distinct_nontrivial=distinct,
               rule="seeded op sequences (writes with flag ops, staging/release/cleanup, checkpoints, limits, all read paths) over key universes with prefix chains, "
                    "prefixes longer than the in-node prefix, fan-outs across 4/16/48/256 and values across arena blocks; art and rbt get the same stream; "
                    "distinct = distinct (call, result, projection)", per_op=ops, mode=mode or "buffers",
               samples=[{k: e[k] for k in e if k != "proj"} for e in events[1:4]], model_check=mc.summary() if mc else None,
               trace_validation=tr.tlc.summary(), checker_cmd="tlc MC_MemBuffer ; go test -overlay harness/unionstore ; tlc Trace_MemBuffer")
    vlib.write_evidence(prop, tier, seed, "model_checking", cov, time.time() - t0, nviol + len(v.known_hits),
                        assumptions=["after the first disagreement in a scenario the rest of that scenario is not judged",
                                     "the 'iterator used after a write fails loudly' clause is checked for the radix tree only (the red-black tree has no write sequence number)",
                                     "an empty key used as a range bound means unbounded (both implementations); memory-footprint hooks and arena internals are not modelled"])
    return 1 if nviol else 0

def run(tier, seed, replay=None):
    return run_buffer_check("C08", "", tier, seed, replay)
