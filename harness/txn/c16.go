package main

// C16 (transaction level): pipelined transactions on unistore (the in-process store that implements the Flush RPC).
// Programs of set / delete / get / batch-get with forced flushes at seeded points over layouts whose borders fall on,
// before and after the flushed keys (including a single flushed key, and the largest flushed key on a region border),
// ended by commit or rollback.  Recorded: every read, every Flush RPC (generation, keys), the final content of every key
// read by a fresh snapshot and the locks of the transaction that are still there after the background resolution has had
// time to finish.  PipelinedTxn.tla decides.

import (
	"bufio"
	"context"
	"encoding/json"
	"math/rand"
	"os"
	"sort"
	"sync"
	"time"

	"github.com/pingcap/kvproto/pkg/kvrpcpb"
	"github.com/pingcap/tidb/pkg/store/mockstore/unistore"
	"github.com/tikv/client-go/v2/kv"
	"github.com/tikv/client-go/v2/tikv"
	"github.com/tikv/client-go/v2/txnkv/txnsnapshot"
	"github.com/tikv/client-go/v2/tikvrpc"
	"github.com/tikv/client-go/v2/util/async"
	"github.com/tikv/pd/client/constants"
)

type uniWrap struct {
	*unistore.RPCClient
	mu      sync.Mutex
	log     func(M)
	noClose bool // several stores share this client: closing one of them must not stop the server
}

func (c *uniWrap) Close() error {
	if c.noClose {
		return nil
	}
	return c.RPCClient.Close()
}

func (c *uniWrap) SendRequestAsync(ctx context.Context, addr string, req *tikvrpc.Request, cb async.Callback[*tikvrpc.Response]) {
	go func() { cb.Schedule(c.SendRequest(ctx, addr, req, 0)) }()
}
func (c *uniWrap) SetEventListener(tikv.ClientEventListener) {}
func (c *uniWrap) SendRequest(ctx context.Context, addr string, req *tikvrpc.Request, timeout time.Duration) (*tikvrpc.Response, error) {
	resp, err := c.RPCClient.SendRequest(ctx, addr, req, timeout)
	if req.Type == tikvrpc.CmdFlush {
		r := req.Flush()
		ks := []int{}
		for _, m := range r.Mutations {
			ks = append(ks, keyIdx(m.Key))
		}
		ok := false
		if err == nil && resp != nil && resp.Resp != nil {
			if re, e2 := resp.GetRegionError(); e2 == nil && re == nil {
				if fr, isFlush := resp.Resp.(*kvrpcpb.FlushResponse); isFlush && len(fr.GetErrors()) == 0 {
					ok = true
				}
			}
		}
		c.log(M{"ev": "flushrpc", "gen": int(r.Generation), "keys": ks, "start": int(r.StartTs % 1000000), "ok": ok})
	}
	return resp, err
}

func runC16(out string, seed int64, n int) {
	f, err := os.Create(out)
	if err != nil {
		panic(err)
	}
	defer f.Close()
	bw := bufio.NewWriterSize(f, 1<<20)
	defer bw.Flush()
	var lmu sync.Mutex
	emit := func(m M) {
		lmu.Lock()
		defer lmu.Unlock()
		b, _ := json.Marshal(m)
		bw.Write(b)
		bw.WriteByte('\n')
	}
	rng := rand.New(rand.NewSource(seed))
	ctx := context.Background()
	for sc := 0; sc < n; sc++ {
		t0 := time.Now()
		client, pdClient, cluster, err := unistore.New("", nil, constants.NullKeyspaceID, nil)
		if err != nil {
			panic(err)
		}
		var splits []int
		var splitKeys [][]byte
		for b := 2; b <= 5; b++ { // key 5 is only ever a bound: a border right after the largest key
			if rng.Intn(3) == 0 {
				splits = append(splits, b)
				splitKeys = append(splitKeys, keyOf(b))
			}
		}
		if len(splitKeys) > 0 {
			unistore.BootstrapWithMultiRegions(cluster, splitKeys...)
		} else {
			unistore.BootstrapWithSingleStore(cluster)
		}
		wrap := &uniWrap{RPCClient: client, log: emit}
		store, err := tikv.NewTestTiKVStore(wrap, pdClient, nil, nil, 0)
		if err != nil {
			panic(err)
		}
		base := make([]int, 4)
		bt, _ := store.Begin()
		for k := 1; k <= 4; k++ {
			base[k-1] = -1
			if rng.Intn(2) == 0 {
				base[k-1] = 10 + k
				_ = bt.Set(keyOf(k), valOf(10+k))
			}
		}
		if err := bt.Commit(ctx); err != nil {
			panic(err)
		}
		emit(M{"ev": "reset", "scn": sc, "seed": seed, "splits": splits, "base": base})
		txn, err := store.Begin(tikv.WithDefaultPipelinedTxn())
		if err != nil {
			panic(err)
		}
		nops := 2 + rng.Intn(10)
		if rng.Intn(4) == 0 {
			nops = 1 // a transaction that flushes a single key
		}
		failed := false
		for i := 0; i < nops && !failed; i++ {
			switch x := rng.Intn(12); {
			case x < 4 || nops == 1:
				k, v := 1+rng.Intn(4), 20+rng.Intn(9)
				err := txn.Set(keyOf(k), valOf(v))
				emit(M{"ev": "op", "op": "Set", "k": k, "v": v, "res": errClass(err)})
			case x < 6:
				k := 1 + rng.Intn(4)
				err := txn.Delete(keyOf(k))
				emit(M{"ev": "op", "op": "Delete", "k": k, "res": errClass(err)})
			case x < 8:
				k := 1 + rng.Intn(4)
				v, err := txn.Get(ctx, keyOf(k))
				emit(M{"ev": "op", "op": "Get", "k": k, "res": errClass(err), "out": valInt(v.Value)})
			case x < 10:
				ks := []int{1 + rng.Intn(4), 1 + rng.Intn(4), 1 + rng.Intn(4)}
				m, err := txn.BatchGet(ctx, keysOf(ks))
				outv := []int{-1, -1, -1, -1}
				for k, v := range m {
					outv[keyIdx([]byte(k))-1] = valInt(v.Value)
				}
				emit(M{"ev": "op", "op": "BatchGet", "ks": ks, "res": errClass(err), "out": outv})
			default:
				_, err := txn.GetMemBuffer().Flush(true)
				if err == nil && rng.Intn(2) == 0 {
					err = txn.GetMemBuffer().FlushWait()
				}
				emit(M{"ev": "op", "op": "Flush", "res": errClass(err)})
				failed = err != nil
			}
		}
		if rng.Intn(3) > 0 { // most transactions flush what is left before they end
			_, err := txn.GetMemBuffer().Flush(true)
			if err == nil {
				err = txn.GetMemBuffer().FlushWait()
			}
			emit(M{"ev": "op", "op": "Flush", "res": errClass(err)})
		}
		start := txn.StartTS()
		kind := "commit"
		if rng.Intn(2) == 0 || failed {
			kind = "rollback"
			err = txn.Rollback()
		} else {
			err = txn.Commit(ctx)
		}
		emit(M{"ev": "end", "kind": kind, "class": errClass(err)})
		t1 := time.Now()
		// the flushed locks are resolved in the background: give it time, then look
		// what is left of the transaction in the store's buffer tier (its flushed locks), asked under its own start ts
		var left []int
		for dl := time.Now().Add(2 * time.Second); ; time.Sleep(5 * time.Millisecond) {
			left = left[:0]
			pt, perr := store.Begin(tikv.WithStartTS(start), tikv.WithDefaultPipelinedTxn())
			if perr == nil {
				m, gerr := pt.GetSnapshot().BatchGetWithTier(ctx, keysOf([]int{1, 2, 3, 4}), txnsnapshot.BatchGetBufferTier, kv.BatchGetOptions{})
				perr = gerr
				for k := range m {
					left = append(left, keyIdx([]byte(k)))
				}
				_ = pt.Rollback()
			}
			if (perr == nil && len(left) == 0) || time.Now().After(dl) {
				break
			}
		}
		sort.Ints(left)
		final := []int{-1, -1, -1, -1}
		ferr := ""
		rt, _ := store.Begin()
		m, err := rt.GetSnapshot().BatchGet(ctx, keysOf([]int{1, 2, 3, 4}))
		if err != nil {
			ferr = err.Error()
		}
		for k, v := range m {
			final[keyIdx([]byte(k))-1] = valInt(v.Value)
		}
		_ = rt.Rollback()
		emit(M{"ev": "final", "vals": final, "leftover": append([]int{}, left...), "readerr": ferr})
		t2 := time.Now()
		go store.Close() // closing may wait several seconds for background workers; nothing of it is observed
		if os.Getenv("VERIF_TIMING") != "" {
			println("c16 scenario", sc, "run", t1.Sub(t0).String(), "settle", t2.Sub(t1).String(), "close", time.Since(t2).String())
		}
	}
}
