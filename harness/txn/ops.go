package main

// API-level operations of a scenario: every call is logged as api_call / api_ret with what the API returned.

import (
	"context"
	"errors"
	"sort"
	"strings"
	"sync/atomic"
	"time"

	"github.com/pingcap/kvproto/pkg/kvrpcpb"
	tikverr "github.com/tikv/client-go/v2/error"
	"github.com/tikv/client-go/v2/kv"
	"github.com/tikv/client-go/v2/tikv"
	"github.com/tikv/client-go/v2/txnkv/transaction"
	"github.com/tikv/client-go/v2/txnkv/txnsnapshot"
)

type Txn struct {
	id    string
	cl    *Client
	t     *tikv.KVTxn
	pess   bool
	ended  bool
	alevel string
	locked map[int]bool // keys this (pessimistic) transaction holds a lock on
}

type Run struct {
	w    *World
	txns map[string]*Txn
}

func errClass(err error) string {
	switch {
	case err == nil:
		return "nil"
	case tikverr.IsErrNotFound(err):
		return "notfound"
	case tikverr.IsErrorUndetermined(err):
		return "undetermined"
	case tikverr.IsErrKeyExist(err):
		return "keyexists"
	case tikverr.IsErrWriteConflict(err):
		return "writeconflict"
	case errors.Is(err, tikverr.ErrLockAcquireFailAndNoWaitSet):
		return "lockfail"
	case errors.Is(err, tikverr.ErrLockWaitTimeout):
		return "lockwaittimeout"
	}
	var dl *tikverr.ErrDeadlock
	if errors.As(err, &dl) {
		return "deadlock"
	}
	var gc *tikverr.ErrTxnAbortedByGC
	if errors.As(err, &gc) {
		return "abortedbygc"
	}
	s := err.Error()
	if strings.Contains(s, "verif: client crashed") {
		return "crashed"
	}
	return "other"
}

func geti(o M, f string) int {
	switch v := o[f].(type) {
	case int:
		return v
	case float64:
		return int(v)
	}
	return 0
}
func getb(o M, f string) bool { b, _ := o[f].(bool); return b }
func gets(o M, f string) string {
	s, _ := o[f].(string)
	return s
}
func getis(o M, f string) []int {
	switch v := o[f].(type) {
	case []int:
		return v
	case []interface{}:
		out := make([]int, len(v))
		for i, x := range v {
			out[i] = int(x.(float64))
		}
		return out
	}
	return nil
}

func pairsOf(it interface {
	Valid() bool
	Key() []byte
	Value() []byte
	Next() error
	Close()
}) ([]M, error) {
	out := []M{}
	defer it.Close()
	for it.Valid() {
		out = append(out, M{"k": keyIdx(it.Key()), "val": valInt(it.Value())})
		if err := it.Next(); err != nil {
			return out, err
		}
	}
	return out, nil
}

// do executes one API operation synchronously in the calling goroutine.
func (r *Run) do(o M) M {
	w := r.w
	op := gets(o, "c")
	ctx := context.Background()
	call := M{"ev": "api_call"}
	for k, v := range o {
		call[k] = v
	}
	var tx *Txn
	if id := gets(o, "txn"); id != "" && op != "begin" {
		tx = r.txn(id)
		call["client"] = tx.cl.name
	}
	if op == "begin" {
		// the start timestamp is fetched inside Begin: log the call before it
		callSeq := w.rec.emit(call)
		cl := w.client(gets(o, "client"))
		t, err := cl.store.Begin()
		// call_seq: the start ts is fetched somewhere between the call and this return, so "began after X" means "called after X"
		ret := M{"ev": "api_ret", "c": op, "txn": gets(o, "txn"), "client": cl.name, "class": errClass(err), "call_seq": callSeq}
		if err == nil {
			t.SetBackgroundGoroutineLifecycleHooks(transaction.LifecycleHooks{
				Pre:  func() { atomic.AddInt64(&w.bg, 1) },
				Post: func() { atomic.AddInt64(&w.bg, -1) },
			})
			t.SetPessimistic(getb(o, "pess"))
			t.SetEnableAsyncCommit(getb(o, "async"))
			t.SetEnable1PC(getb(o, "onepc"))
			switch gets(o, "alevel") {
			case "fast":
				t.SetAssertionLevel(kvrpcpb.AssertionLevel_Fast)
			case "strict":
				t.SetAssertionLevel(kvrpcpb.AssertionLevel_Strict)
			}
			txnMu.Lock()
			r.txns[gets(o, "txn")] = &Txn{id: gets(o, "txn"), cl: cl, t: t, pess: getb(o, "pess"), alevel: gets(o, "alevel")}
			txnMu.Unlock()
			ret["start"] = cts(t.StartTS())
			ret["pess"] = getb(o, "pess")
		}
		w.rec.emit(ret)
		return ret
	}
	w.rec.emit(call)
	ret := M{}
	for k, v := range o { // the return event echoes the arguments
		ret[k] = v
	}
	ret["ev"], ret["c"], ret["txn"] = "api_ret", op, gets(o, "txn")
	if tx != nil {
		ret["client"] = tx.cl.name
	}
	switch op {
	case "get":
		v, err := tx.t.Get(ctx, keyOf(geti(o, "k")))
		ret["class"], ret["val"] = errClass(err), valInt(v.Value)
	case "batchget":
		m, err := tx.t.BatchGet(ctx, keysOf(getis(o, "ks")))
		ps := []M{}
		for k, v := range m {
			ps = append(ps, M{"k": keyIdx([]byte(k)), "val": valInt(v.Value)})
		}
		sort.Slice(ps, func(i, j int) bool { return ps[i]["k"].(int) < ps[j]["k"].(int) })
		ret["class"], ret["pairs"] = errClass(err), ps
	case "iter":
		it, err := tx.t.Iter(keyOf(geti(o, "lo")), keyOf(geti(o, "hi")))
		ret["class"], ret["pairs"] = errClass(err), []M{}
		if err == nil {
			ps, err2 := pairsOf(it)
			ret["class"], ret["pairs"] = errClass(err2), ps
		}
	case "riter":
		it, err := tx.t.IterReverse(keyOf(geti(o, "hi")), keyOf(geti(o, "lo")))
		ret["class"], ret["pairs"] = errClass(err), []M{}
		if err == nil {
			ps, err2 := pairsOf(it)
			ret["class"], ret["pairs"] = errClass(err2), ps
		}
	case "set":
		if useUni && tx.pess && !tx.locked[geti(o, "k")] {
			// unistore tells a pessimistic transaction's prewrite to resolve any lock it meets unconditionally (lock ttl 0): a write
			// to a key the transaction never locked would remove another transaction's live lock. Writers lock first there.
			ret["class"] = "skipped"
			break
		}
		ret["class"] = errClass(tx.t.Set(keyOf(geti(o, "k")), valOf(geti(o, "v"))))
	case "insert":
		if useUni && tx.pess && !tx.locked[geti(o, "k")] {
			ret["class"] = "skipped"
			break
		}
		fl := []kv.FlagsOp{kv.SetPresumeKeyNotExists}
		if getb(o, "newly") { // what TiDB does for a freshly inserted row
			fl = append(fl, kv.SetNewlyInserted)
		}
		ret["class"] = errClass(tx.t.GetMemBuffer().SetWithFlags(keyOf(geti(o, "k")), valOf(geti(o, "v")), fl...))
	case "assert":
		fop := kv.SetAssertUnknown
		switch gets(o, "a") {
		case "exist":
			fop = kv.SetAssertExist
		case "notexist":
			fop = kv.SetAssertNotExist
		}
		tx.t.GetMemBuffer().UpdateFlags(keyOf(geti(o, "k")), fop)
		ret["class"] = "nil"
	case "delete":
		if useUni && tx.pess && !tx.locked[geti(o, "k")] {
			ret["class"] = "skipped"
			break
		}
		ret["class"] = errClass(tx.t.Delete(keyOf(geti(o, "k"))))
	case "lock":
		fts, err := tx.cl.store.CurrentTimestamp("global")
		if err != nil {
			ret["class"] = errClass(err)
			break
		}
		wait := kv.LockAlwaysWait
		if getb(o, "nowait") {
			wait = kv.LockNoWait
		} else if geti(o, "waitms") > 0 {
			wait = int64(geti(o, "waitms"))
		}
		lctx := kv.NewLockCtx(fts, wait, time.Now())
		if getb(o, "retvals") {
			lctx.InitReturnValues(4)
		}
		err = tx.t.LockKeys(ctx, lctx, keysOf(getis(o, "ks"))...)
		ret["class"], ret["fts"] = errClass(err), cts(fts)
		if err == nil {
			if tx.locked == nil {
				tx.locked = map[int]bool{}
			}
			for _, k := range getis(o, "ks") {
				tx.locked[k] = true
			}
		}
		vals := []M{}
		if err == nil && getb(o, "retvals") {
			for _, k := range getis(o, "ks") {
				if rv, ok := lctx.Values[string(keyOf(k))]; ok && !rv.AlreadyLocked {
					vals = append(vals, M{"k": k, "val": valInt(rv.Value)})
				}
			}
		}
		ret["vals"] = vals
	case "commit":
		// the buffer as the committer will see it: value (-1: none, 0: tombstone) and the flags that decide the mutation
		buf := []M{}
		mb := tx.t.GetMemBuffer()
		for k := 1; k <= 4; k++ {
			fl, ferr := mb.GetFlags(keyOf(k))
			v, verr := mb.Get(ctx, keyOf(k))
			if ferr != nil && verr != nil {
				continue
			}
			val := -1
			if verr == nil {
				val = valInt(v.Value)
			}
			buf = append(buf, M{"k": k, "val": val, "pne": fl.HasPresumeKeyNotExists(), "locked": fl.HasLocked(), "newly": fl.HasNewlyInserted(),
				"aex": fl.HasAssertExist(), "anex": fl.HasAssertNotExist(), "pcc": fl.HasNeedConstraintCheckInPrewrite()})
		}
		alevel := tx.alevel
		if alevel == "" {
			alevel = "off"
		}
		call2 := M{"ev": "commit_buffer", "txn": tx.id, "buffer": buf, "pess": tx.t.IsPessimistic(), "alevel": alevel}
		w.rec.emit(call2)
		err := tx.t.Commit(ctx)
		tx.ended = true
		ret["class"], ret["commit"], ret["msg"] = errClass(err), cts(tx.t.CommitTS()), fmtErr(err)
	case "rollback":
		err := tx.t.Rollback()
		tx.ended = true
		ret["class"] = errClass(err)
	case "agg_start":
		if !tx.t.IsInAggressiveLockingMode() {
			tx.t.StartAggressiveLocking()
		}
		ret["class"] = "nil"
	case "agg_retry":
		if tx.t.IsInAggressiveLockingMode() {
			tx.t.RetryAggressiveLocking(ctx)
		}
		ret["class"] = "nil"
	case "agg_cancel":
		if tx.t.IsInAggressiveLockingMode() {
			tx.t.CancelAggressiveLocking(ctx)
		}
		ret["class"] = "nil"
	case "agg_done":
		if tx.t.IsInAggressiveLockingMode() {
			tx.t.DoneAggressiveLocking(ctx)
		}
		ret["class"] = "nil"
	case "snapget", "snapbatchget", "snapiter", "snapriter":
		cl := w.client(gets(o, "client"))
		snap := cl.store.GetSnapshot(uint64(0))
		_ = snap
		ret["class"] = "other"
	default:
		panic("unknown op " + op)
	}
	if tx != nil {
		ret["start"] = cts(tx.t.StartTS())
	}
	w.rec.emit(ret)
	return ret
}

var _ = txnsnapshot.KVSnapshot{}
