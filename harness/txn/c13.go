package main

// C13 (commit-wait part): a transaction with SetCommitWaitUntilTSO(x) either commits with a commit timestamp strictly
// greater than x, or its Commit fails.  The constraint is placed below, at, slightly above (same millisecond, larger
// logical part), moderately above (reached only if the clock is advanced while the commit waits) and far above the
// oracle's current time.  OracleHistory.tla (event "commitwait") decides.

import (
	"context"
	"math/rand"
	"time"

	"github.com/tikv/client-go/v2/oracle"
)

func runC13(w *World, rng *rand.Rand, n int) {
	for sc := 0; sc < n; sc++ {
		w.reset(M{"kind": "c13", "scenario": sc, "lossless": true}, layouts[rng.Intn(len(layouts))])
		r := &Run{w: w, txns: map[string]*Txn{}}
		r.setup(baseData)
		cl := w.client("a")
		tx, err := cl.store.Begin()
		if err != nil {
			continue
		}
		tx.SetPessimistic(rng.Intn(2) == 0)
		_ = tx.Set(keyOf(1+rng.Intn(4)), valOf(50+rng.Intn(9)))
		now, err := cl.store.CurrentTimestamp("global")
		if err != nil {
			continue
		}
		phys, logical := oracle.ExtractPhysical(now), int64(oracle.ExtractLogical(now))
		kind := rng.Intn(6)
		var constraint uint64
		switch kind {
		case 0:
			constraint = now - 1
		case 1:
			constraint = now
		case 2:
			constraint = oracle.ComposeTS(phys, logical+int64(2+rng.Intn(6)))
		case 3, 4:
			constraint = oracle.ComposeTS(phys+int64(50+rng.Intn(300)), int64(rng.Intn(3)))
		default:
			constraint = oracle.ComposeTS(phys+int64(5000+rng.Intn(5000)), 0)
		}
		tx.SetCommitWaitUntilTSO(constraint)
		timeout := []time.Duration{0, 100 * time.Millisecond, time.Second}[rng.Intn(3)]
		tx.SetCommitWaitUntilTSOTimeout(timeout)
		stop := make(chan struct{})
		if kind == 4 { // the clock catches up while the commit waits
			go func() {
				for i := 0; i < 40; i++ {
					select {
					case <-stop:
						return
					case <-time.After(2 * time.Millisecond):
						w.exec.Lock()
						w.clk.advance(20)
						w.exec.Unlock()
					}
				}
			}()
		}
		err = tx.Commit(context.Background())
		close(stop)
		w.rec.emit(M{"ev": "commitwait", "constraint": cts(constraint), "commit": cts(tx.CommitTS()), "class": errClass(err), "kindc": kind, "timeout_ms": int(timeout / time.Millisecond)})
		w.drained(0)
		w.recoverAll(r)
	}
}
