package main

// C02 (crash anywhere in Commit) and C03 (faults anywhere in Commit): enumerated scenarios.
// The enumeration is: transaction shape x region layout x optimistic / pessimistic x RPC index of Commit x
// {fault kinds} (x companion for crashes).  The number of RPCs of a shape is measured by a fault-free dry run.

import (
	"context"
	"fmt"
	"github.com/pingcap/kvproto/pkg/kvrpcpb"
	"math/rand"
	"sync/atomic"

	"github.com/tikv/client-go/v2/tikv"
	"github.com/tikv/client-go/v2/tikvrpc"
)

type shape struct {
	name      string
	writes    []M    // set / insert / delete ops (without txn id)
	locks     []int  // keys only locked (pessimistic) and not written
	lockFirst []int  // pessimistic: keys locked by a first call (the primary is chosen among them), the rest by a second call
	alevel    string // assertion level ("" = off, "fast", "strict")
}

// shapes with prewrite assertions (C04's enumeration only): all true; one false in a non-primary batch; unknown; fast level;
// a freshly inserted row deleted again (pessimistic: only its lock is converted)
var assertShapes = []shape{
	{"assert_ok", []M{{"c": "set", "k": 1, "v": 11}, {"c": "assert", "k": 1, "a": "exist"}, {"c": "set", "k": 3, "v": 13}, {"c": "assert", "k": 3, "a": "notexist"},
		{"c": "delete", "k": 4}, {"c": "assert", "k": 4, "a": "exist"}}, nil, nil, "strict"},
	{"assert_fail", []M{{"c": "set", "k": 1, "v": 11}, {"c": "assert", "k": 1, "a": "exist"}, {"c": "set", "k": 2, "v": 12}, {"c": "assert", "k": 2, "a": "notexist"},
		{"c": "set", "k": 4, "v": 14}}, nil, nil, "strict"},
	{"assert_fail_last", []M{{"c": "set", "k": 1, "v": 11}, {"c": "set", "k": 3, "v": 13}, {"c": "assert", "k": 3, "a": "exist"}, {"c": "set", "k": 4, "v": 14},
		{"c": "assert", "k": 4, "a": "unknown"}}, nil, nil, "fast"},
	{"assert_off", []M{{"c": "set", "k": 1, "v": 11}, {"c": "assert", "k": 1, "a": "notexist"}, {"c": "set", "k": 3, "v": 13}}, nil, nil, ""},
	{"insdel_new", []M{{"c": "insert", "k": 3, "v": 13, "newly": true}, {"c": "delete", "k": 3}, {"c": "set", "k": 4, "v": 14}}, nil, nil, ""},
}

var shapes = []shape{
	{"put1", []M{{"c": "set", "k": 1, "v": 11}}, nil, nil, ""},
	{"put2", []M{{"c": "set", "k": 1, "v": 11}, {"c": "set", "k": 3, "v": 13}}, nil, nil, ""},
	{"mix3", []M{{"c": "set", "k": 2, "v": 12}, {"c": "delete", "k": 1}, {"c": "insert", "k": 3, "v": 13}}, nil, nil, ""},
	{"put4", []M{{"c": "set", "k": 1, "v": 11}, {"c": "set", "k": 2, "v": 12}, {"c": "set", "k": 3, "v": 13}, {"c": "set", "k": 4, "v": 14}}, nil, nil, ""},
	{"lockonly", []M{{"c": "set", "k": 3, "v": 13}}, []int{2}, nil, ""},
	{"insdel", []M{{"c": "insert", "k": 3, "v": 13}, {"c": "delete", "k": 3}, {"c": "set", "k": 4, "v": 14}}, nil, nil, ""},
	// the primary is the largest key (pessimistic: the key locked first), so its batch is the last one in key order
	{"lastprimary", []M{{"c": "set", "k": 4, "v": 14}, {"c": "set", "k": 1, "v": 11}, {"c": "set", "k": 3, "v": 13}}, nil, []int{4}, ""},
	{"midprimary", []M{{"c": "set", "k": 3, "v": 13}, {"c": "set", "k": 1, "v": 11}, {"c": "delete", "k": 4}}, []int{2}, []int{3}, ""},
	// optimistic only: a key that exists is inserted (existence presumed, checked at commit) and deleted again - the commit carries
	// a non-locking existence check that fails, next to a key that is locked
	{"insdel_exists", []M{{"c": "insert", "k": 2, "v": 12}, {"c": "delete", "k": 2}, {"c": "set", "k": 4, "v": 14}}, nil, nil, ""},
}
var layouts = [][]int{{}, {3}, {2, 3, 4}}
var baseData = map[int]int{1: 1, 2: 2, 4: 4}

// the victim's commit mode (unistore mode only: mocktikv implements neither async commit nor 1PC)
type cmode struct {
	name         string
	async, onepc bool
}

var victimMode = cmode{"2pc", false, false}

func cmodes() []cmode {
	if !useUni {
		return []cmode{{"2pc", false, false}}
	}
	return []cmode{{"2pc", false, false}, {"async", true, false}, {"1pc", false, true}, {"async+1pc", true, true}}
}

// victimOps builds the victim's program up to (not including) commit
func victimOps(sh shape, pess bool) []M {
	ops := []M{{"c": "begin", "txn": "v", "client": "v", "pess": pess, "async": victimMode.async, "onepc": victimMode.onepc, "alevel": sh.alevel}}
	if pess {
		ks := append([]int{}, sh.locks...)
		seen := map[int]bool{}
		for _, w := range sh.writes {
			if !seen[geti(w, "k")] {
				seen[geti(w, "k")] = true
				ks = append(ks, geti(w, "k"))
			}
		}
		if len(sh.lockFirst) > 0 {
			ops = append(ops, M{"c": "lock", "txn": "v", "ks": sh.lockFirst, "retvals": false, "nowait": true})
			rest := []int{}
			for _, k := range ks {
				in := false
				for _, f := range sh.lockFirst {
					in = in || f == k
				}
				if !in {
					rest = append(rest, k)
				}
			}
			ks = rest
		}
		if len(ks) > 0 {
			ops = append(ops, M{"c": "lock", "txn": "v", "ks": ks, "retvals": false, "nowait": true})
		}
	}
	for _, wr := range sh.writes {
		o := M{"txn": "v"}
		for k, v := range wr {
			o[k] = v
		}
		ops = append(ops, o)
	}
	return ops
}

// runVictim runs the victim with the given per-RPC policy installed from the moment Commit is called; returns
// the number of protocol RPCs the victim's client issued since then (after the background work has drained).
// warm lets the clients that will act after the crash learn the region layout first, so that a later split or
// leader change is met with a stale region cache (region errors during recovery)
func warm(w *World, names ...string) {
	for _, n := range names {
		cl := w.client(n)
		ts, err := cl.store.CurrentTimestamp("global")
		if err == nil {
			_, _ = cl.store.GetSnapshot(ts).BatchGet(context.Background(), keysOf([]int{1, 2, 3, 4}))
		}
	}
}

func runVictim(w *World, r *Run, sh shape, pess bool, policy func(idx int, req *tikvrpc.Request) Action) int {
	return runVictimAs(w, r, "v", sh, pess, policy)
}

func runVictimAs(w *World, r *Run, name string, sh shape, pess bool, policy func(idx int, req *tikvrpc.Request) Action) int {
	if name != "v" {
		ops := victimOps(sh, pess)
		for _, o := range ops {
			o["txn"] = name
			if gets(o, "c") == "begin" {
				o["client"] = name
			}
			r.do(o)
		}
		g := w.client(name).gate
		w.schedMu.Lock()
		g.n = 0
		g.policy = policy
		w.schedMu.Unlock()
		r.do(M{"c": "commit", "txn": name})
		w.drained(0)
		w.schedMu.Lock()
		n := int(g.n)
		g.policy = nil
		w.schedMu.Unlock()
		return n
	}
	for _, o := range victimOps(sh, pess) {
		r.do(o)
	}
	g := w.client("v").gate
	w.schedMu.Lock()
	g.n = 0
	g.policy = policy
	w.schedMu.Unlock()
	r.do(M{"c": "commit", "txn": "v"})
	w.drained(0)
	w.schedMu.Lock()
	n := int(g.n)
	g.policy = nil
	w.schedMu.Unlock()
	return n
}

func companion(w *World, r *Run, kind string) {
	switch kind {
	case "reader": // a reader after the locks are considered expired
		w.advance(30000)
		r.seq("r", M{"c": "begin", "txn": "rd", "pess": false}, M{"c": "batchget", "txn": "rd", "ks": []int{1, 2, 3, 4}}, M{"c": "iter", "txn": "rd", "lo": 0, "hi": 0}, M{"c": "rollback", "txn": "rd"})
	case "early_reader": // a reader that meets the live locks (may push min-commit-ts or time out)
		r.seq("r", M{"c": "begin", "txn": "rd", "pess": false}, M{"c": "get", "txn": "rd", "k": 1}, M{"c": "get", "txn": "rd", "k": 3}, M{"c": "rollback", "txn": "rd"})
	case "writer": // a conflicting writer after expiry
		w.advance(30000)
		r.seq("x", M{"c": "begin", "txn": "wr", "pess": false}, M{"c": "set", "txn": "wr", "k": 1, "v": 71}, M{"c": "set", "txn": "wr", "k": 3, "v": 73}, M{"c": "commit", "txn": "wr"})
	case "pess_writer":
		w.advance(30000)
		r.seq("x", M{"c": "begin", "txn": "wr", "pess": true}, M{"c": "lock", "txn": "wr", "ks": []int{1, 3}, "retvals": true, "nowait": true}, M{"c": "set", "txn": "wr", "k": 3, "v": 73}, M{"c": "commit", "txn": "wr"})
	case "gc": // GC-style batch resolution treats every lock below the safe point as expired
		cl := w.client("g")
		ts, err := cl.store.CurrentTimestamp("global")
		if err == nil {
			_, err = tikv.ResolveLocksForRange(context.Background(), tikv.NewRegionLockResolver("verif-gc", cl.store), ts, nil, nil, tikv.NewGcResolveLockMaxBackoffer, 2)
			w.rec.emit(M{"ev": "gc_resolve", "client": "g", "safepoint": cts(ts), "class": errClass(err)})
		}
	case "split":
		w.split(2)
		w.split(4)
	case "split_at_check": // the region of the primary splits between the reader meeting a lock and its status check
		w.advance(30000)
		g := w.client("r").gate
		var once int32
		w.schedMu.Lock()
		g.policy = func(idx int, req *tikvrpc.Request) Action {
			if req.Type == tikvrpc.CmdCheckTxnStatus && atomic.CompareAndSwapInt32(&once, 0, 1) {
				return Action{pre: func() { w.split(2); w.split(3); w.split(4) }}
			}
			return Action{}
		}
		w.schedMu.Unlock()
		r.seq("r", M{"c": "begin", "txn": "rd", "pess": false}, M{"c": "get", "txn": "rd", "k": 3}, M{"c": "get", "txn": "rd", "k": 4}, M{"c": "batchget", "txn": "rd", "ks": []int{1, 2, 3, 4}}, M{"c": "rollback", "txn": "rd"})
		w.schedMu.Lock()
		g.policy = nil
		w.schedMu.Unlock()
	}
}

var companions = []string{"none", "reader", "early_reader", "writer", "pess_writer", "gc", "split", "split_at_check"}

func runC02(w *World, rng *rand.Rand, div int) {
	if div < 1 {
		div = 1
	}
	cnt := 0
	defer func() { victimMode = cmode{"2pc", false, false} }()
	for _, cm := range cmodes() {
		victimMode = cm
		for si, sh := range shapes {
			for li, lay := range layouts {
				for _, pess := range []bool{false, true} {
					if pess && sh.name == "insdel_exists" {
						continue // a pessimistic insert checks existence when it locks: the program would not get as far as Commit
					}
					if useUni && cm.async && pess && len(sh.locks) > 0 {
						// unistore keeps no commit record for a lock-only SECONDARY key (writeBatch.Commit writes the Op_Lock status for
						// the primary only): CheckSecondaryLocks on such a key after its commit reports "no lock, not committed" and
						// writes a rollback, which contradicts the other secondaries. TiKV keeps a Lock-type write record. Not driven.
						continue
					}
					// dry run: how many RPCs does Commit issue for this shape?
					w.reset(M{"kind": "c02dry", "shape": sh.name, "pess": pess, "cmode": cm.name}, lay)
					r := &Run{w: w, txns: map[string]*Txn{}}
					r.setup(baseData)
					firstCommit := int32(-1)
					prewriteIdx := map[int]bool{}
					n := runVictim(w, r, sh, pess, func(idx int, req *tikvrpc.Request) Action {
						if req.Type == tikvrpc.CmdCommit {
							atomic.CompareAndSwapInt32(&firstCommit, -1, int32(idx))
						}
						if req.Type == tikvrpc.CmdPrewrite {
							prewriteIdx[idx] = true
						}
						return Action{}
					})
					w.recoverAll(r)
					type cp struct {
						i    int
						f    string
						comp string
					}
					var points []cp
					for i := 0; i < n; i++ {
						for fi, f := range []string{"crash_before", "crash_after"} {
							cnt++
							if firstCommit >= 0 && i >= int(firstCommit) {
								// the window in which the outcome is already decided on the primary: every companion
								for _, c := range companions {
									points = append(points, cp{i, f, c})
								}
								continue
							}
							points = append(points, cp{i, f, companions[(i+si+li+fi+cnt)%len(companions)]})
						}
					}
					for pi, pt := range points {
						{
							i, f, comp := pt.i, pt.f, pt.comp
							cnt++
							// async commit over several regions, the client dying between its prewrites: always run (recovery has to tell a
							// missing secondary from a locked one, whatever order the regions answer in)
							must := cm.async && len(lay) == 3 && prewriteIdx[i]
							if !must && (pi+int(rng.Int63()%int64(div)))%div != 0 {
								continue
							}
							w.reset(M{"kind": "c02", "shape": sh.name, "pess": pess, "crash_idx": i, "crash": f, "companion": comp, "rpcs": n, "cmode": cm.name}, lay)
							r := &Run{w: w, txns: map[string]*Txn{}}
							r.setup(baseData)
							warm(w, "zr", "r", "x", "g")
							var fired int32
							runVictim(w, r, sh, pess, func(idx int, req *tikvrpc.Request) Action {
								if idx == i && atomic.CompareAndSwapInt32(&fired, 0, 1) {
									return Action{kind: f}
								}
								return Action{}
							})
							// whatever the victim still tries is lost with it
							w.client("v").gate.dead.Store(true)
							if len(sh.writes) > 1 && (cnt/div)%3 == 0 {
								// a second client reuses the first victim's primary key and dies right after its prewrite: two dead
								// transactions with the same primary key are then met by the same recovery pass
								pk := geti(sh.writes[0], "k")
								if len(sh.lockFirst) > 0 {
									pk = sh.lockFirst[0]
								}
								var f2 int32
								runVictimAs(w, r, "v2", shape{"second", []M{{"c": "set", "k": pk, "v": 21}}, nil, nil, ""}, false, func(idx int, req *tikvrpc.Request) Action {
									if req.Type == tikvrpc.CmdPrewrite && atomic.CompareAndSwapInt32(&f2, 0, 1) {
										return Action{kind: "crash_after"}
									}
									return Action{}
								})
								w.client("v2").gate.dead.Store(true)
							}
							companion(w, r, comp)
							w.recoverAll(r)
						}
					}
				}
			}
		}
	}
	victimMode = cmode{"2pc", false, false}
	// two dead transactions that share a primary key, met by one GC-style batch resolution (or by a reader)
	for _, sh := range shapes {
		if len(sh.writes) < 2 {
			continue
		}
		for _, lay := range layouts {
			for _, pess := range []bool{false, true} {
				for variant := 0; variant < 4; variant++ {
					cnt++
					if (cnt+int(rng.Int63()%int64(div)))%div != 0 && div > 1 && variant > 1 {
						continue
					}
					comp := []string{"gc", "reader"}[variant%2]
					ackFirst := variant < 2
					w.reset(M{"kind": "c02", "shape": sh.name, "pess": pess, "crash_idx": -1, "crash": "double", "companion": comp, "ack_first": ackFirst}, lay)
					r := &Run{w: w, txns: map[string]*Txn{}}
					r.setup(baseData)
					warm(w, "zr", "r", "g")
					var fired int32
					runVictim(w, r, sh, pess, func(idx int, req *tikvrpc.Request) Action {
						if ackFirst {
							// die right after the primary commit took effect: the answer reaches the application, the secondaries stay locked
							if req.Type == tikvrpc.CmdCommit && atomic.AddInt32(&fired, 1) == 2 {
								return Action{kind: "crash_before"}
							}
							return Action{}
						}
						if req.Type == tikvrpc.CmdCommit && atomic.CompareAndSwapInt32(&fired, 0, 1) {
							return Action{kind: "crash_before"}
						}
						return Action{}
					})
					w.client("v").gate.dead.Store(true)
					pk := geti(sh.writes[0], "k")
					if pess {
						pk = 0
						for k := 1; k <= w.nkeys && pk == 0; k++ {
							for _, e := range []M{w.proj()} {
								if l := e["lock"].([]M)[k-1]; geti(l, "primary") != 0 {
									pk = geti(l, "primary")
								}
							}
						}
						if pk == 0 {
							pk = geti(sh.writes[0], "k")
						}
					}
					// the second victim reuses the primary key and also locks a key next to the first victim's orphan secondary,
					// so that one region holds locks of two transactions that name the same primary key
					other := 4
					if pk == 4 {
						other = 3
					}
					var f2 int32
					runVictimAs(w, r, "v2", shape{"second", []M{{"c": "set", "k": pk, "v": 21}, {"c": "set", "k": other, "v": 24}}, nil, nil, ""}, false, func(idx int, req *tikvrpc.Request) Action {
						// die once both prewrites have taken effect (one request per region)
						if req.Type == tikvrpc.CmdCommit && atomic.CompareAndSwapInt32(&f2, 0, 1) {
							return Action{kind: "crash_before"}
						}
						return Action{}
					})
					w.client("v2").gate.dead.Store(true)
					companion(w, r, comp)
					w.recoverAll(r)
				}
			}
		}
	}
	_ = fmt.Sprint
}

var faultKinds = []string{"blackout", "drop_req", "drop_resp", "not_leader", "epoch_not_match", "server_busy", "stale_command", "split", "expire_resolve", "push_minc", "undetermined", "resolver_dies"}

func faultAction(w *World, r *Run, f string, tag string) Action {
	switch f {
	case "split":
		return Action{pre: func() { w.split(2); w.split(4) }}
	case "expire_resolve": // another client considers the locks expired and resolves them while the committer is still running
		return Action{pre: func() {
			w.advance(30000)
			r.seq("r"+tag, M{"c": "begin", "txn": "rd" + tag, "pess": false}, M{"c": "batchget", "txn": "rd" + tag, "ks": []int{1, 2, 3, 4}}, M{"c": "rollback", "txn": "rd" + tag})
		}}
	case "resolver_dies": // another client resolves every lock it finds as expired (as GC's batch resolution does) and dies after its first ResolveLock took effect
		return Action{pre: func() {
			cl := w.client("h" + tag)
			var n int32
			w.schedMu.Lock()
			cl.gate.policy = func(idx int, req *tikvrpc.Request) Action {
				if req.Type == tikvrpc.CmdResolveLock && atomic.AddInt32(&n, 1) == 1 {
					return Action{kind: "crash_after"}
				}
				return Action{}
			}
			w.schedMu.Unlock()
			ts, err := cl.store.CurrentTimestamp("global")
			if err == nil {
				_, err = tikv.ResolveLocksForRange(context.Background(), tikv.NewRegionLockResolver("verif-half", cl.store), ts, nil, nil, tikv.NewGcResolveLockMaxBackoffer, 2)
				w.rec.emit(M{"ev": "gc_resolve", "client": "h" + tag, "safepoint": cts(ts), "class": errClass(err)})
			}
			cl.gate.dead.Store(true)
		}}
	case "push_minc": // a reader meets the live locks: it may push min-commit-ts, it must not remove them
		return Action{pre: func() {
			r.seq("r"+tag, M{"c": "begin", "txn": "rd" + tag, "pess": false}, M{"c": "get", "txn": "rd" + tag, "k": 1}, M{"c": "rollback", "txn": "rd" + tag})
		}}
	}
	if f == "blackout" { // from this request on nothing of this client gets through any more (until it gives up)
		g := w.client("v").gate
		g.blackout.Store(true)
		return Action{kind: "drop_req"}
	}
	return Action{kind: f}
}

func runC03(w *World, rng *rand.Rand, div int) {
	if div < 1 {
		div = 1
	}
	if useUni {
		faultKinds = append(faultKinds, "fallback") // the store gives up async commit / 1PC for one prewrite
	}
	cnt := 0
	defer func() { victimMode = cmode{"2pc", false, false} }()
	for _, cm := range cmodes() {
		victimMode = cm
		for _, sh := range shapes {
			for _, lay := range layouts {
				for _, pess := range []bool{false, true} {
					if pess && sh.name == "insdel_exists" {
						continue
					}
					if useUni && cm.async && pess && len(sh.locks) > 0 {
						continue // see runC02: unistore keeps no commit record for a lock-only secondary key
					}
					w.reset(M{"kind": "c03dry", "shape": sh.name, "pess": pess, "cmode": cm.name}, lay)
					r := &Run{w: w, txns: map[string]*Txn{}}
					r.setup(baseData)
					isPrewrite := map[int]bool{}
					n := runVictim(w, r, sh, pess, func(idx int, req *tikvrpc.Request) Action {
						if req.Type == tikvrpc.CmdPrewrite {
							isPrewrite[idx] = true
						}
						return Action{}
					})
					w.recoverAll(r)
					type script struct {
						i1   int
						f1   string
						i2   int
						f2   string
						must bool // not subject to sampling
					}
					var scripts []script
					for i := 0; i < n; i++ {
						for _, f := range faultKinds {
							scripts = append(scripts, script{i1: i, f1: f, i2: -1})
						}
					}
					// the store carried a prewrite out but calls the result undetermined; when the committer starts to clean up, another
					// client resolves the transaction's locks and dies half-way (i2 = -2: at the victim's first BatchRollback)
					for i := 0; i < n; i++ {
						if isPrewrite[i] {
							scripts = append(scripts, script{i1: i, f1: "undetermined", i2: -2, f2: "resolver_dies"})
						}
					}
					// async commit / 1PC: the prewrites are the commit point. What happens to each of them - answer lost, result undetermined,
					// the store falling back to an ordinary lock - is always run, on the single-region and the most split layout
					if (cm.async || cm.onepc) && (len(lay) == 0 || len(lay) == 3) {
						for i := 0; i < n; i++ {
							if isPrewrite[i] {
								for _, f := range []string{"drop_resp", "undetermined", "fallback"} {
									scripts = append(scripts, script{i1: i, f1: f, i2: -1, must: true})
								}
								// the store falls back, and a resolver forces expiry when the committer sends its first Commit (i2 = -3)
								scripts = append(scripts, script{i1: i, f1: "fallback", i2: -3, f2: "resolver_dies", must: true})
							}
						}
					}
					// async commit, a failing non-locking existence check next to a locked key: when the check is about to fail, another client
					// considers the lock expired (i1 = -4: at the first prewrite that only checks, once a locking prewrite went before it;
					// which of the two the committer sends first varies, so the script is run several times)
					if cm.async && sh.name == "insdel_exists" {
						for k := 0; k < 6; k++ {
							scripts = append(scripts, script{i1: -4, f1: "resolver_dies", i2: -1, must: true})
						}
					}
					// doubles: sampled
					for d := 0; d < n*2; d++ {
						i1, i2 := rng.Intn(n), rng.Intn(n+2)
						scripts = append(scripts, script{i1: i1, f1: faultKinds[rng.Intn(len(faultKinds))], i2: i2, f2: faultKinds[rng.Intn(len(faultKinds))]})
					}
					for _, sc := range scripts {
						cnt++
						if !sc.must && (cnt+int(rng.Int63()%int64(div)))%div != 0 {
							continue
						}
						benign := func(f string) bool {
							return f == "" || f == "not_leader" || f == "epoch_not_match" || f == "server_busy" || f == "stale_command" || f == "split" || f == "fallback"
						}
						w.reset(M{"kind": "c03", "shape": sh.name, "pess": pess, "i1": sc.i1, "f1": sc.f1, "i2": sc.i2, "f2": sc.f2, "rpcs": n,
							"lossless": benign(sc.f1) && benign(sc.f2), "cmode": cm.name}, lay)
						r := &Run{w: w, txns: map[string]*Txn{}}
						r.setup(baseData)
						var f1, f2 int32
						// unistore's prewrite honours a rollback record of its own transaction on the primary key only, and answers a
						// non-locking batch with a min-commit-ts of its own: a resolver that forces expiry while an async-commit
						// committer is still prewriting is not judged on it (TiKV refuses the late prewrite)
						early := func(f string, req *tikvrpc.Request) bool {
							return useUni && cm.async && f == "resolver_dies" && req.Type != tikvrpc.CmdCommit && req.Type != tikvrpc.CmdBatchRollback
						}
						var lockedSome atomic.Bool
						runVictim(w, r, sh, pess, func(idx int, req *tikvrpc.Request) Action {
							if req.Type == tikvrpc.CmdPrewrite {
								onlyChecks := true
								for _, m := range req.Prewrite().Mutations {
									onlyChecks = onlyChecks && m.Op == kvrpcpb.Op_CheckNotExists
								}
								if !onlyChecks {
									lockedSome.Store(true)
								} else if sc.i1 == -4 && lockedSome.Load() && atomic.CompareAndSwapInt32(&f1, 0, 1) {
									return faultAction(w, r, sc.f1, "a")
								}
							}
							if idx == sc.i1 && !early(sc.f1, req) && atomic.CompareAndSwapInt32(&f1, 0, 1) {
								return faultAction(w, r, sc.f1, "a")
							}
							if sc.i2 >= 0 && idx == sc.i2 && !early(sc.f2, req) && atomic.CompareAndSwapInt32(&f2, 0, 1) {
								return faultAction(w, r, sc.f2, "b")
							}
							if sc.i2 == -2 && req.Type == tikvrpc.CmdBatchRollback && atomic.CompareAndSwapInt32(&f2, 0, 1) {
								return faultAction(w, r, sc.f2, "b")
							}
							if sc.i2 == -3 && req.Type == tikvrpc.CmdCommit && atomic.CompareAndSwapInt32(&f2, 0, 1) {
								return faultAction(w, r, sc.f2, "b")
							}
							return Action{}
						})
						w.recoverAll(r)
					}
				}
			}
		}
	}
}

// C06: programs of a pessimistic subject with a contender that makes individual steps fail; no lost messages.
func runC06(w *World, rng *rand.Rand, n int) {
	for sc := 0; sc < n; sc++ {
		lay := layouts[rng.Intn(len(layouts))]
		w.reset(M{"kind": "c06", "scenario": sc}, lay)
		r := &Run{w: w, txns: map[string]*Txn{}}
		r.setup(baseData)
		w.client("p")
		w.client("q")
		pess := rng.Intn(5) != 0
		r.do(M{"c": "begin", "txn": "p", "client": "p", "pess": pess, "async": false, "onepc": false})
		contenderOpen := false
		startContender := func() {
			if contenderOpen {
				return
			}
			contenderOpen = true
			r.do(M{"c": "begin", "txn": fmt.Sprintf("q%d", sc), "client": "q", "pess": true, "async": false, "onepc": false})
		}
		qid := fmt.Sprintf("q%d", sc)
		agg := false
		var plocked []int
		steps := 2 + rng.Intn(6)
		for i := 0; i < steps; i++ {
			k := 1 + rng.Intn(4)
			switch x := rng.Intn(15); {
			case x < 3: // the contender takes a lock that will make the subject's next lock call fail
				startContender()
				r.do(M{"c": "lock", "txn": qid, "ks": []int{k}, "retvals": false, "nowait": true})
			case x < 4: // the contender commits a newer version (write conflicts for the subject)
				r.seq("q2", M{"c": "begin", "txn": fmt.Sprintf("w%d_%d", sc, i), "pess": false}, M{"c": "set", "txn": fmt.Sprintf("w%d_%d", sc, i), "k": k, "v": 90 + i},
					M{"c": "commit", "txn": fmt.Sprintf("w%d_%d", sc, i)})
			case x < 9:
				if pess {
					ks := rng.Perm(4)[:1+rng.Intn(3)]
					for j := range ks {
						ks[j]++
					}
					if len(plocked) > 0 && rng.Intn(2) == 0 { // name a key that is already held again, together with new ones
						ks = append([]int{plocked[rng.Intn(len(plocked))]}, ks...)
						seen := map[int]bool{}
						uniq := ks[:0]
						for _, k := range ks {
							if !seen[k] {
								seen[k] = true
								uniq = append(uniq, k)
							}
						}
						ks = uniq
					}
					ret := r.do(M{"c": "lock", "txn": "p", "ks": ks, "retvals": rng.Intn(2) == 0, "nowait": rng.Intn(4) != 0, "waitms": 25})
					if ret["class"] == "nil" {
						plocked = append(plocked, ks...)
					} else if len(plocked) > 0 && rng.Intn(2) == 0 {
						// after a failed lock call, somebody else tries to write a key the subject still holds: it must not get through
						wk := plocked[rng.Intn(len(plocked))]
						id := fmt.Sprintf("x%d_%d", sc, i)
						r.seq("q3", M{"c": "begin", "txn": id, "pess": false}, M{"c": "set", "txn": id, "k": wk, "v": 80 + i}, M{"c": "commit", "txn": id})
					}
				} else {
					r.do(M{"c": "set", "txn": "p", "k": k, "v": 50 + i})
				}
			case x < 11:
				r.do(M{"c": "set", "txn": "p", "k": k, "v": 50 + i})
			case x < 12:
				r.do(M{"c": "delete", "txn": "p", "k": k})
			case x < 13:
				if pess && !agg {
					r.do(M{"c": "agg_start", "txn": "p"})
					agg = true
				}
			case x < 14:
				if agg {
					r.do(M{"c": "agg_retry", "txn": "p"})
				}
			default:
				if agg {
					r.do(M{"c": []string{"agg_done", "agg_cancel"}[rng.Intn(2)], "txn": "p"})
					agg = false
				}
			}
			if rng.Intn(9) == 0 {
				w.split(1 + rng.Intn(4))
			}
		}
		if agg {
			r.do(M{"c": []string{"agg_done", "agg_cancel"}[rng.Intn(2)], "txn": "p"})
		}
		if rng.Intn(2) == 0 {
			r.do(M{"c": "rollback", "txn": "p"})
		} else {
			r.do(M{"c": "commit", "txn": "p"})
		}
		if contenderOpen {
			r.do(M{"c": []string{"rollback", "commit"}[rng.Intn(2)], "txn": qid})
		}
		w.drained(0)
		w.recoverAll(r)
	}
}
