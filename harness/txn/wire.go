package main

// Summaries of the protocol requests / responses crossing the gate, in the shape the TLA+ monitors read.

import (
	"github.com/pingcap/kvproto/pkg/kvrpcpb"
	"github.com/tikv/client-go/v2/tikvrpc"
)

func idxs(keys [][]byte) []int {
	out := make([]int, len(keys))
	for i, k := range keys {
		out[i] = keyIdx(k)
	}
	return out
}

func reqSummary(req *tikvrpc.Request) M {
	m := M{"region": int(req.Context.GetRegionId()), "retry": req.IsRetryRequest}
	switch req.Type {
	case tikvrpc.CmdPrewrite:
		r := req.Prewrite()
		muts := []M{}
		for i, mu := range r.Mutations {
			act := "skip"
			if i < len(r.PessimisticActions) {
				switch r.PessimisticActions[i] {
				case kvrpcpb.PrewriteRequest_DO_PESSIMISTIC_CHECK:
					act = "pess"
				case kvrpcpb.PrewriteRequest_DO_CONSTRAINT_CHECK:
					act = "constraint"
				}
			}
			muts = append(muts, M{"op": mu.Op.String(), "k": keyIdx(mu.Key), "val": valInt(mu.Value), "assert": mu.Assertion.String(), "act": act})
		}
		m["start"], m["primary"], m["muts"] = cts(r.StartVersion), keyIdx(r.PrimaryLock), muts
		m["minc"], m["maxc"], m["async"], m["secondaries"] = cts(r.MinCommitTs), cts(r.MaxCommitTs), r.UseAsyncCommit, idxs(r.Secondaries)
		m["onepc"], m["ttl"], m["fts"], m["txnsize"] = r.TryOnePc, int(r.LockTtl), cts(r.ForUpdateTs), int(r.TxnSize)
	case tikvrpc.CmdCommit:
		r := req.Commit()
		m["start"], m["commit"], m["keys"] = cts(r.StartVersion), cts(r.CommitVersion), idxs(r.Keys)
	case tikvrpc.CmdBatchRollback:
		r := req.BatchRollback()
		m["start"], m["keys"] = cts(r.StartVersion), idxs(r.Keys)
	case tikvrpc.CmdCleanup:
		r := req.Cleanup()
		m["start"], m["keys"], m["current"] = cts(r.StartVersion), []int{keyIdx(r.Key)}, cts(r.CurrentTs)
	case tikvrpc.CmdPessimisticLock:
		r := req.PessimisticLock()
		ks := []int{}
		notexist := []bool{}
		for _, mu := range r.Mutations {
			ks = append(ks, keyIdx(mu.Key))
			notexist = append(notexist, mu.Assertion == kvrpcpb.Assertion_NotExist)
		}
		m["start"], m["fts"], m["primary"], m["keys"], m["notexist"] = cts(r.StartVersion), cts(r.ForUpdateTs), keyIdx(r.PrimaryLock), ks, notexist
		m["ttl"], m["minc"], m["retvals"], m["checkex"], m["onlyif"], m["wait"], m["wakeup"] = int(r.LockTtl), cts(r.MinCommitTs), r.ReturnValues, r.CheckExistence, r.LockOnlyIfExists, int(r.WaitTimeout), r.WakeUpMode.String()
	case tikvrpc.CmdPessimisticRollback:
		r := req.PessimisticRollback()
		m["start"], m["fts"], m["keys"] = cts(r.StartVersion), cts(r.ForUpdateTs), idxs(r.Keys)
	case tikvrpc.CmdCheckTxnStatus:
		r := req.CheckTxnStatus()
		m["primary"], m["lts"], m["caller"], m["current"] = keyIdx(r.PrimaryKey), cts(r.LockTs), cts(r.CallerStartTs), cts(r.CurrentTs)
		m["rb"], m["force"], m["rp"] = r.RollbackIfNotExist, r.ForceSyncCommit, r.ResolvingPessimisticLock
	case tikvrpc.CmdCheckSecondaryLocks:
		r := req.CheckSecondaryLocks()
		m["start"], m["keys"] = cts(r.StartVersion), idxs(r.Keys)
	case tikvrpc.CmdResolveLock:
		r := req.ResolveLock()
		infos := []M{}
		for _, ti := range r.TxnInfos {
			infos = append(infos, M{"start": cts(ti.Txn), "commit": cts(ti.Status)})
		}
		m["start"], m["commit"], m["infos"], m["keys"] = cts(r.StartVersion), cts(r.CommitVersion), infos, idxs(r.Keys)
	case tikvrpc.CmdTxnHeartBeat:
		r := req.TxnHeartBeat()
		m["primary"], m["start"], m["advise"] = keyIdx(r.PrimaryLock), cts(r.StartVersion), int(r.AdviseLockTtl)
	case tikvrpc.CmdGet:
		r := req.Get()
		m["ts"], m["keys"] = cts(r.Version), []int{keyIdx(r.Key)}
	case tikvrpc.CmdBatchGet:
		r := req.BatchGet()
		m["ts"], m["keys"] = cts(r.Version), idxs(r.Keys)
	case tikvrpc.CmdScan:
		r := req.Scan()
		m["ts"], m["lo"], m["hi"], m["limit"], m["reverse"], m["keyonly"] = cts(r.Version), keyIdx(r.StartKey), keyIdx(r.EndKey), int(r.Limit), r.Reverse, r.KeyOnly
	case tikvrpc.CmdScanLock:
		r := req.ScanLock()
		m["maxts"], m["lo"], m["hi"], m["limit"] = cts(r.MaxVersion), keyIdx(r.StartKey), keyIdx(r.EndKey), int(r.Limit)
	case tikvrpc.CmdGC:
		m["sp"] = cts(req.GC().SafePoint)
	}
	return m
}

func keyErrKind(ke *kvrpcpb.KeyError) M {
	switch {
	case ke == nil:
		return M{"err": "none", "ets": 0}
	case ke.Locked != nil:
		return M{"err": "locked", "ets": cts(ke.Locked.LockVersion), "lprimary": keyIdx(ke.Locked.PrimaryLock), "lkey": keyIdx(ke.Locked.Key), "lttl": int(ke.Locked.LockTtl),
			"ltype": lockKind(ke.Locked.LockType), "lasync": ke.Locked.UseAsyncCommit, "lminc": cts(ke.Locked.MinCommitTs)}
	case ke.Conflict != nil:
		return M{"err": "conflict", "ets": cts(ke.Conflict.ConflictCommitTs)}
	case ke.AlreadyExist != nil:
		return M{"err": "exists", "ets": 0}
	case ke.Deadlock != nil:
		return M{"err": "deadlock", "ets": cts(ke.Deadlock.LockTs)}
	case ke.CommitTsExpired != nil:
		return M{"err": "expired", "ets": cts(ke.CommitTsExpired.MinCommitTs)}
	case ke.TxnNotFound != nil:
		return M{"err": "txnnotfound", "ets": 0}
	case ke.AssertionFailed != nil:
		return M{"err": "assertion", "ets": 0}
	case ke.Retryable != "":
		return M{"err": "retryable", "ets": 0}
	case ke.Abort != "":
		return M{"err": "abort", "ets": 0}
	}
	return M{"err": "other", "ets": 0}
}

func keyErrs(kes []*kvrpcpb.KeyError) []M {
	out := []M{}
	for _, ke := range kes {
		out = append(out, keyErrKind(ke))
	}
	return out
}

func respSummary(req *tikvrpc.Request, resp *tikvrpc.Response, err error) M {
	if err != nil || resp == nil || resp.Resp == nil {
		return M{"kind": "rpc_error", "msg": fmtErr(err)}
	}
	re, _ := resp.GetRegionError()
	if re != nil {
		return M{"kind": "region_error", "msg": re.Message}
	}
	m := M{"kind": "ok"}
	switch r := resp.Resp.(type) {
	case *kvrpcpb.PrewriteResponse:
		m["errs"], m["minc"], m["onepc_commit"] = keyErrs(r.Errors), cts(r.MinCommitTs), cts(r.OnePcCommitTs)
	case *kvrpcpb.CommitResponse:
		m["errs"], m["commit"] = keyErrs(nonNil(r.Error)), cts(r.CommitVersion)
	case *kvrpcpb.BatchRollbackResponse:
		m["errs"] = keyErrs(nonNil(r.Error))
	case *kvrpcpb.CleanupResponse:
		m["errs"], m["commit"] = keyErrs(nonNil(r.Error)), cts(r.CommitVersion)
	case *kvrpcpb.PessimisticLockResponse:
		vals := []int{}
		for _, v := range r.Values {
			vals = append(vals, valInt(v))
		}
		m["errs"], m["vals"], m["notfounds"] = keyErrs(r.Errors), vals, r.NotFounds
	case *kvrpcpb.PessimisticRollbackResponse:
		m["errs"] = keyErrs(r.Errors)
	case *kvrpcpb.CheckTxnStatusResponse:
		m["errs"], m["ttl"], m["commit"], m["action"] = keyErrs(nonNil(r.Error)), int(r.LockTtl), cts(r.CommitVersion), r.Action.String()
		if r.LockInfo != nil {
			m["lasync"], m["lminc"], m["lsecondaries"] = r.LockInfo.UseAsyncCommit, cts(r.LockInfo.MinCommitTs), idxs(r.LockInfo.Secondaries)
		}
	case *kvrpcpb.CheckSecondaryLocksResponse:
		locks := []M{}
		for _, l := range r.Locks {
			locks = append(locks, M{"k": keyIdx(l.Key), "ts": cts(l.LockVersion), "minc": cts(l.MinCommitTs)})
		}
		m["errs"], m["locks"], m["commit"] = keyErrs(nonNil(r.Error)), locks, cts(r.CommitTs)
	case *kvrpcpb.ResolveLockResponse:
		m["errs"] = keyErrs(nonNil(r.Error))
	case *kvrpcpb.TxnHeartBeatResponse:
		m["errs"], m["ttl"] = keyErrs(nonNil(r.Error)), int(r.LockTtl)
	case *kvrpcpb.GetResponse:
		m["errs"], m["val"], m["notfound"] = keyErrs(nonNil(r.Error)), valInt(r.Value), r.NotFound
	case *kvrpcpb.BatchGetResponse:
		pairs := []M{}
		errs := []*kvrpcpb.KeyError{}
		for _, p := range r.Pairs {
			if p.Error != nil {
				errs = append(errs, p.Error)
			} else {
				pairs = append(pairs, M{"k": keyIdx(p.Key), "val": valInt(p.Value)})
			}
		}
		m["errs"], m["pairs"] = keyErrs(append(errs, nonNil(r.Error)...)), pairs
	case *kvrpcpb.ScanResponse:
		pairs := []M{}
		errs := []*kvrpcpb.KeyError{}
		for _, p := range r.Pairs {
			if p.Error != nil {
				errs = append(errs, p.Error)
			} else {
				pairs = append(pairs, M{"k": keyIdx(p.Key), "val": valInt(p.Value)})
			}
		}
		m["errs"], m["pairs"] = keyErrs(append(errs, nonNil(r.Error)...)), pairs
	case *kvrpcpb.ScanLockResponse:
		locks := []M{}
		for _, l := range r.Locks {
			locks = append(locks, M{"k": keyIdx(l.Key), "ts": cts(l.LockVersion), "primary": keyIdx(l.PrimaryLock)})
		}
		m["errs"], m["locks"] = keyErrs(nonNil(r.Error)), locks
	default:
		m["errs"] = []M{}
	}
	return m
}

func nonNil(ke *kvrpcpb.KeyError) []*kvrpcpb.KeyError {
	if ke == nil {
		return nil
	}
	return []*kvrpcpb.KeyError{ke}
}
