package main

// Scenario drivers of the transactional engine.  usage: txnh -mode c01|c02|c03|c06 -out trace.ndjson -seed N -n COUNT

import (
	"context"
	"flag"
	"fmt"
	"math/rand"
	"os"
	"runtime"
	"strings"
	"sync"
	"sync/atomic"
	"time"

	"github.com/pingcap/failpoint"
	"github.com/pingcap/log"
	"github.com/tikv/client-go/v2/tikv"
	"github.com/tikv/client-go/v2/tikvrpc"
	"github.com/tikv/client-go/v2/util"
	"go.uber.org/zap"
)

var (
	flagMode = flag.String("mode", "c01", "scenario family")
	flagOut  = flag.String("out", "/tmp/txn.ndjson", "trace file")
	flagSeed = flag.Int64("seed", 1, "seed")
	flagFx   = flag.String("fixtures", "", "fixture file (one JSON command list per line) for c05 / c14")
	flagN    = flag.Int("n", 50, "number of scenarios (random families) / sampling divisor (enumerated families)")
)

type Thread struct {
	ops []M
}

// runThreads runs every thread's operations in its own goroutine under controlled scheduling.
func (r *Run) runThreads(threads []Thread) {
	r.w.startScheduler()
	var wg sync.WaitGroup
	for _, th := range threads {
		wg.Add(1)
		go func(th Thread) {
			defer wg.Done()
			skip := map[string]bool{}
			for _, o := range th.ops {
				if id := gets(o, "txn"); id != "" && (skip[id] || (gets(o, "c") != "begin" && r.txn(id) == nil)) {
					continue
				}
				r.do(o)
				c := gets(o, "c")
				// a transaction whose pessimistic lock call failed, or that ended, is not driven further (except rollback)
				if c == "commit" || c == "rollback" {
					skip[gets(o, "txn")] = true
				}
			}
		}(th)
	}
	wg.Wait()
	r.w.stopScheduler()
}

var txnMu sync.Mutex

func (r *Run) txn(id string) *Txn {
	txnMu.Lock()
	defer txnMu.Unlock()
	return r.txns[id]
}

// busyGoroutines counts goroutines that are executing client-go's transactional code (committer, resolver, snapshot,
// range task).  Idle pool workers and the stores' own tickers do not count.
func busyGoroutines() int {
	buf := make([]byte, 4<<20)
	n := runtime.Stack(buf, true)
	cnt := 0
	for _, blk := range strings.Split(string(buf[:n]), "\n\n") {
		if strings.Contains(blk, "client-go/v2/txnkv/") && !strings.Contains(blk, "main.(*World).drained") {
			cnt++
		}
	}
	return cnt
}

// drained waits until no goroutine executes transactional client code any more and no RPC is in flight (the sound
// "all background work has finished" signal: nothing is left that could still remove a lock) and logs the projection.
func (w *World) drained(baseline int) bool {
	ok := false
	for i := 0; i < 6000; i++ {
		if atomic.LoadInt64(&w.bg) == 0 && busyGoroutines() == 0 {
			ok = true
			break
		}
		time.Sleep(300 * time.Microsecond)
	}
	w.exec.Lock()
	w.rec.emit(M{"ev": "drained", "ok": ok, "proj": w.proj()})
	w.exec.Unlock()
	return ok
}

// recoverAll: the locks are considered expired, a fresh client reads every key (reader-driven resolution) and then
// resolves whatever is left the way GC does; the projection afterwards is the final truth of the scenario.
func (w *World) recoverAll(r *Run) {
	w.advance(30000)
	cl := w.client("zr")
	ts, err := cl.store.CurrentTimestamp("global")
	if err == nil {
		snap := cl.store.GetSnapshot(ts)
		call := M{"ev": "api_call", "c": "recovery_read", "client": "zr", "ts": cts(ts)}
		w.rec.emit(call)
		var ks [][]byte
		for i := 1; i <= w.nkeys; i++ {
			ks = append(ks, keyOf(i))
		}
		m, err := snap.BatchGet(context.Background(), ks)
		ps := []M{}
		for i := 1; i <= w.nkeys; i++ {
			if v, ok := m[string(keyOf(i))]; ok {
				ps = append(ps, M{"k": i, "val": valInt(v.Value)})
			}
		}
		w.rec.emit(M{"ev": "api_ret", "c": "recovery_read", "client": "zr", "ts": cts(ts), "class": errClass(err), "pairs": ps})
	}
	ts2, err := cl.store.CurrentTimestamp("global")
	if err == nil {
		_, err = tikv.ResolveLocksForRange(context.Background(), tikv.NewRegionLockResolver("verif", cl.store), ts2, nil, nil, tikv.NewGcResolveLockMaxBackoffer, 16)
		w.rec.emit(M{"ev": "gc_resolve", "client": "zr", "safepoint": cts(ts2), "class": errClass(err)})
	}
	// let the resolvers' background work finish before the final projection is taken
	for i := 0; i < 6000 && (atomic.LoadInt64(&w.bg) > 0 || busyGoroutines() > 0); i++ {
		time.Sleep(300 * time.Microsecond)
	}
	w.exec.Lock()
	w.rec.emit(M{"ev": "final", "proj": w.proj()})
	w.exec.Unlock()
}

func (r *Run) seq(client string, ops ...M) {
	for _, o := range ops {
		if gets(o, "c") == "begin" {
			o["client"] = client
		}
		r.do(o)
	}
}

// setup commits base values through an ordinary transaction of client "s"
func (r *Run) setup(vals map[int]int) {
	if len(vals) == 0 {
		return
	}
	ops := []M{{"c": "begin", "txn": "t0"}}
	for k, v := range vals {
		ops = append(ops, M{"c": "set", "txn": "t0", "k": k, "v": v})
	}
	ops = append(ops, M{"c": "commit", "txn": "t0"})
	r.seq("s", ops...)
}

// ---------------------------------------------------------------------------------------------
// C01: random concurrent workloads
func genTxnOps(rng *rand.Rand, id string, client string, nkeys int, mocktikvOnly bool) []M {
	pess := rng.Intn(2) == 0
	async, onepc := false, false
	if useUni { // unistore implements both commit modes: most transactions ask for one of them
		switch rng.Intn(4) {
		case 0:
			async = true
		case 1:
			onepc = true
		case 2:
			async, onepc = true, true
		}
	}
	ops := []M{{"c": "begin", "txn": id, "client": client, "pess": pess, "async": async, "onepc": onepc}}
	n := 1 + rng.Intn(4)
	val := 10 + rng.Intn(200)
	for i := 0; i < n; i++ {
		k := 1 + rng.Intn(nkeys)
		switch x := rng.Intn(12); {
		case x < 2:
			ops = append(ops, M{"c": "get", "txn": id, "k": k})
		case x < 3:
			ks := rng.Perm(nkeys)[:1+rng.Intn(nkeys)]
			for j := range ks {
				ks[j]++
			}
			ops = append(ops, M{"c": "batchget", "txn": id, "ks": ks})
		case x < 4:
			lo, hi := rng.Intn(nkeys+1), 0
			if rng.Intn(2) == 0 {
				hi = lo + 1 + rng.Intn(nkeys)
			}
			c := []string{"iter", "riter"}[rng.Intn(2)]
			if useUni {
				c = "iter" // reverse scans of unistore return other transactions' pending values (the store is trusted, not judged)
			}
			if c == "riter" && hi == 0 {
				hi = nkeys + 1 // a reverse scan from the unbounded end of the key space is C05's subject (finding F8), not this workload's
			}
			ops = append(ops, M{"c": c, "txn": id, "lo": lo, "hi": hi})
		case x < 8:
			if pess && rng.Intn(3) != 0 {
				ops = append(ops, M{"c": "lock", "txn": id, "ks": []int{k}, "retvals": rng.Intn(2) == 0, "nowait": true})
			}
			ops = append(ops, M{"c": "set", "txn": id, "k": k, "v": val})
		case x < 9:
			if !pess {
				ops = append(ops, M{"c": "insert", "txn": id, "k": k, "v": val})
			} else {
				ops = append(ops, M{"c": "set", "txn": id, "k": k, "v": val})
			}
		case x < 10:
			if pess && rng.Intn(2) == 0 {
				ops = append(ops, M{"c": "lock", "txn": id, "ks": []int{k}, "retvals": false, "nowait": true})
			}
			ops = append(ops, M{"c": "delete", "txn": id, "k": k})
		default:
			if pess {
				ks := rng.Perm(nkeys)[:1+rng.Intn(2)]
				for j := range ks {
					ks[j]++
				}
				ops = append(ops, M{"c": "lock", "txn": id, "ks": ks, "retvals": rng.Intn(2) == 0, "nowait": true})
			} else {
				ops = append(ops, M{"c": "get", "txn": id, "k": k})
			}
		}
	}
	if rng.Intn(7) == 0 {
		ops = append(ops, M{"c": "rollback", "txn": id})
	} else {
		ops = append(ops, M{"c": "commit", "txn": id})
	}
	return ops
}

func runC01(w *World, rng *rand.Rand, n int) {
	for sc := 0; sc < n; sc++ {
		splits := [][]int{{}, {3}, {2, 4}, {2, 3, 4}}[rng.Intn(4)]
		t0 := time.Now()
		w.reset(M{"kind": "c01", "scenario": sc}, splits)
		tReset := time.Since(t0)
		r := &Run{w: w, txns: map[string]*Txn{}}
		base := map[int]int{}
		for k := 1; k <= w.nkeys; k++ {
			if rng.Intn(2) == 0 {
				base[k] = k
			}
		}
		r.setup(base)
		nth := 2 + rng.Intn(2)
		var threads []Thread
		for t := 0; t < nth; t++ {
			cl := fmt.Sprintf("c%d", t+1)
			w.client(cl)
			var ops []M
			for j := 0; j < 1+rng.Intn(2); j++ {
				ops = append(ops, genTxnOps(rng, fmt.Sprintf("t%d_%d", t+1, j+1), cl, w.nkeys, true)...)
			}
			threads = append(threads, Thread{ops})
		}
		if rng.Intn(2) == 0 {
			// a reader thread: several read-only transactions that begin at different moments of the writers' commits
			w.client("rd")
			var ops []M
			for j := 0; j < 3+rng.Intn(3); j++ {
				id := fmt.Sprintf("r%d", j+1)
				ops = append(ops, M{"c": "begin", "txn": id, "client": "rd", "pess": false, "async": false, "onepc": false})
				for x := 0; x < 1+rng.Intn(2); x++ {
					switch rng.Intn(4) {
					case 0:
						ops = append(ops, M{"c": "batchget", "txn": id, "ks": []int{1, 2, 3, 4}})
					case 1:
						ops = append(ops, M{"c": "iter", "txn": id, "lo": 0, "hi": 0})
					case 2:
						if useUni {
							ops = append(ops, M{"c": "iter", "txn": id, "lo": 1, "hi": 0})
						} else {
							ops = append(ops, M{"c": "riter", "txn": id, "lo": 0, "hi": w.nkeys + 1})
						}
					default:
						ops = append(ops, M{"c": "get", "txn": id, "k": 1 + rng.Intn(w.nkeys)})
					}
				}
				ops = append(ops, M{"c": "rollback", "txn": id})
			}
			threads = append(threads, Thread{ops})
		}
		w.client("zr")
		time.Sleep(2 * time.Millisecond)
		baseline := runtime.NumGoroutine()
		if rng.Intn(3) == 0 { // a region split while the workload runs
			at := 1 + rng.Intn(w.nkeys)
			go func() { time.Sleep(time.Duration(rng.Intn(3000)) * time.Microsecond); w.split(at) }()
		}
		// keyspace mode: a tenant of the neighbouring keyspace writes the same logical keys on the same store meanwhile
		foreignDone := make(chan map[int]int, 1)
		if ksID != 0 {
			fc := w.client("foreign")
			go func() {
				last := map[int]int{}
				for i := 0; i < 3; i++ {
					tx, err := fc.store.Begin()
					if err != nil {
						continue
					}
					wrote := map[int]int{}
					for k := 1; k <= w.nkeys; k++ {
						if (k+i)%2 == 0 {
							v := 90 + i
							_ = tx.Set(keyOf(k), valOf(v))
							wrote[k] = v
						}
					}
					if tx.Commit(context.Background()) == nil {
						for k, v := range wrote {
							last[k] = v
						}
						w.rec.emit(M{"ev": "foreign_write", "n": len(wrote)})
					}
					time.Sleep(300 * time.Microsecond)
				}
				foreignDone <- last
			}()
		}
		t1 := time.Now()
		r.runThreads(threads)
		tRun := time.Since(t1)
		if ksID != 0 {
			last := <-foreignDone
			ok := true
			fc := w.client("foreign")
			if tx, err := fc.store.Begin(); err == nil {
				for k := 1; k <= w.nkeys; k++ {
					v, gerr := tx.Get(context.Background(), keyOf(k))
					want, has := last[k]
					if has && (gerr != nil || valInt(v.Value) != want) {
						ok = false
					}
					if !has && gerr == nil {
						ok = false
					}
				}
				_ = tx.Rollback()
			} else {
				ok = false
			}
			w.rec.emit(M{"ev": "foreign_check", "ok": ok})
		}
		t2 := time.Now()
		w.drained(baseline + 1)
		tDr := time.Since(t2)
		t3 := time.Now()
		w.recoverAll(r)
		if os.Getenv("VERIF_TIMING") != "" {
			fmt.Fprintln(os.Stderr, "reset", tReset, "run", tRun, "drain", tDr, "recover", time.Since(t3))
		}
	}
}

// ---------------------------------------------------------------------------------------------
func main() {
	flag.Parse()
	util.EnableFailpoints()
	if err := failpoint.Enable("tikvclient/fastBackoffBySkipSleep", "return"); err != nil {
		panic(err)
	}
	log.ReplaceGlobals(zap.NewNop(), &log.ZapProperties{})
	if *flagMode == "c01ks" {
		ksID = 4242
	}
	if *flagMode == "c01uni" || *flagMode == "c02uni" || *flagMode == "c03uni" {
		useUni = true
	}
	if *flagMode == "c16" {
		runC16(*flagOut, *flagSeed, *flagN)
		return
	}
	rng := rand.New(rand.NewSource(*flagSeed))
	w := newWorld(*flagOut, *flagSeed, 4, nil)
	defer w.rec.close()
	switch *flagMode {
	case "c01", "c01ks", "c01uni":
		runC01(w, rng, *flagN)
	case "c02uni":
		runC02(w, rng, *flagN)
	case "c03uni":
		runC03(w, rng, *flagN)
	case "c02":
		runC02(w, rng, *flagN)
	case "c03":
		runC03(w, rng, *flagN)
	case "c06":
		runC06(w, rng, *flagN)
	case "c04":
		runC04(w, rng, *flagN)
	case "c05":
		flagFixtures = *flagFx
		runC05(w, rng, *flagN)
	case "c14":
		flagFixtures = *flagFx
		runC14(w, rng, *flagN)
	case "c14rt":
		runC14rt(w, rng, *flagN)
	case "c13":
		runC13(w, rng, *flagN)
	default:
		fmt.Fprintln(os.Stderr, "unknown mode")
		os.Exit(2)
	}
	_ = tikvrpc.CmdGet
}
