package main

// The wire gate, the virtual TSO and the recorder shared by every transactional scenario
// (C01-C06, C14; design sections 3.3-3.5).  Nothing here decides anything: it drives the real
// client-go over the in-process store and writes NDJSON events whose order is the order in which
// things happened (one global sequence counter taken under the lock that also serialises RPCs).

import (
	"bufio"
	"context"
	"encoding/json"
	"errors"
	"fmt"

	"github.com/pingcap/kvproto/pkg/keyspacepb"
	"github.com/pingcap/tidb/pkg/store/mockstore/unistore"
	"github.com/tikv/client-go/v2/util/codec"
	pdgc "github.com/tikv/pd/client/clients/gc"
	"github.com/tikv/pd/client/constants"
	"math"
	"math/rand"
	"os"
	"sort"
	"sync"
	"sync/atomic"
	"time"

	"github.com/pingcap/kvproto/pkg/errorpb"
	"github.com/pingcap/kvproto/pkg/kvrpcpb"
	"github.com/tikv/client-go/v2/testutils"
	"github.com/tikv/client-go/v2/tikv"
	"github.com/tikv/client-go/v2/tikvrpc"
	"github.com/tikv/client-go/v2/util/async"
	pd "github.com/tikv/pd/client"
	"github.com/tikv/pd/client/clients/tso"
	"github.com/tikv/pd/client/pkg/caller"
)

type M = map[string]interface{}

const maxTsC = 2147483647

// unistore mode: timestamps come from unistore's own PD (wall clock), because the store takes the minimum commit
// timestamp of async-commit / 1PC transactions from it; tsBase shifts them into the compact range
var tsBase int64

const rpcBudget = 6000

// compact exact image of a TSO timestamp: physical*1000 + logical (logical < 1000 is enforced by the virtual PD)
func cts(t uint64) int {
	if t == math.MaxUint64 {
		return maxTsC
	}
	if t == 0 {
		return 0
	}
	l := int(t & 0x3ffff)
	p := int(t>>18) - int(tsBase)
	if l >= 1000 || p >= 2000000 || p < 0 {
		return -int(t % 1000000) // out of the exact range: never equal to a real compact ts, flagged by the specs
	}
	return p*1000 + l
}

// the key universe is prefix-nested on purpose ("k" < "k0" < "k00" < "k1" < ...): a key that extends another one is what
// distinguishes NextKey from PrefixNextKey and exercises range ends that are prefixes of keys
var keyTable = []string{"", "k", "k0", "k00", "k1", "k2", "k3", "k4", "k5", "k6"}

func keyIdx(k []byte) int {
	if len(k) == 0 {
		return 0
	}
	for i := 1; i < len(keyTable); i++ {
		if string(k) == keyTable[i] {
			return i
		}
	}
	return -1
}
func keyOf(i int) []byte {
	if i <= 0 {
		return nil
	}
	return []byte(keyTable[i])
}

// keyspace mode (C15): the clients are bound to keyspace ksID, the store and the cluster work on physical keys
var ksID uint32

func ksPrefix(id uint32) []byte { return []byte{'x', byte(id >> 16), byte(id >> 8), byte(id)} }

// physOf is the key under which the store holds logical key i of the clients' keyspace
func physOf(i int) []byte {
	if ksID == 0 {
		return keyOf(i)
	}
	return append(ksPrefix(ksID), keyOf(i)...)
}

func keysOf(is []int) [][]byte {
	out := make([][]byte, len(is))
	for i, x := range is {
		out[i] = keyOf(x)
	}
	return out
}
func valInt(v []byte) int {
	if len(v) == 0 {
		return 0
	}
	return int(v[0])
}
func valOf(i int) []byte { return []byte{byte(i)} }

// ---------------------------------------------------------------------------------------------
type Recorder struct {
	mu  sync.Mutex
	seq int
	w   *bufio.Writer
	f   *os.File
	n   int
}

func newRecorder(path string) *Recorder {
	f, err := os.Create(path)
	if err != nil {
		panic(err)
	}
	return &Recorder{f: f, w: bufio.NewWriterSize(f, 1<<20)}
}

// emit assigns the next sequence number and writes the event; callers that need the event to be ordered with an
// effect hold World.exec around both.
func (r *Recorder) emit(e M) int {
	r.mu.Lock()
	defer r.mu.Unlock()
	r.seq++
	e["seq"] = r.seq
	b, err := json.Marshal(e)
	if err != nil {
		panic(err)
	}
	r.w.Write(b)
	r.w.WriteByte('\n')
	r.n++
	return r.seq
}
func (r *Recorder) close() { r.w.Flush(); r.f.Close() }

// ---------------------------------------------------------------------------------------------
// virtual clock + PD wrapper
type vclock struct {
	mu       sync.Mutex
	physical int64
	logical  int64
}

func (c *vclock) next() (int64, int64) {
	c.mu.Lock()
	defer c.mu.Unlock()
	c.logical++
	if c.logical >= 990 {
		c.physical++
		c.logical = 1
	}
	return c.physical, c.logical
}
func (c *vclock) advance(ms int64) {
	c.mu.Lock()
	c.physical += ms
	c.logical = 0
	c.mu.Unlock()
}

type vpd struct {
	pd.Client
	w    *World
	name string
	ks   *keyspacepb.KeyspaceMeta // keyspace mode: the keyspace this client is bound to (the mock PD knows none)
}

// the mock PD implements the GC states API for the null keyspace only: hand that one out for every keyspace
func (p *vpd) GetGCStatesClient(keyspaceID uint32) pdgc.GCStatesClient {
	return p.Client.GetGCStatesClient(constants.NullKeyspaceID)
}

func (p *vpd) LoadKeyspace(ctx context.Context, name string) (*keyspacepb.KeyspaceMeta, error) {
	if p.ks != nil {
		return p.ks, nil
	}
	return p.Client.LoadKeyspace(ctx, name)
}

func (p *vpd) WithCallerComponent(caller.Component) pd.Client { return p }
func (p *vpd) GetTS(ctx context.Context) (int64, int64, error) {
	if useUni {
		ph, l, err := p.Client.GetTS(ctx)
		if err != nil {
			return ph, l, err
		}
		p.w.clk.mu.Lock()
		if tsBase == 0 {
			tsBase = ph - 1000
		}
		p.w.clk.mu.Unlock()
		p.w.rec.emit(M{"ev": "tso", "client": p.name, "ts": cts(uint64(ph)<<18 | uint64(l))})
		return ph, l, nil
	}
	ph, l := p.w.clk.next()
	p.w.rec.emit(M{"ev": "tso", "client": p.name, "ts": int(ph)*1000 + int(l)})
	return ph, l, nil
}

type fut struct{ p, l int64 }

func (f fut) Wait() (int64, int64, error) { return f.p, f.l, nil }
func (p *vpd) GetTSAsync(ctx context.Context) tso.TSFuture {
	ph, l, _ := p.GetTS(ctx)
	return fut{ph, l}
}
func (p *vpd) GetLocalTS(ctx context.Context, _ string) (int64, int64, error) { return p.GetTS(ctx) }
func (p *vpd) GetLocalTSAsync(ctx context.Context, _ string) tso.TSFuture     { return p.GetTSAsync(ctx) }

// ---------------------------------------------------------------------------------------------
// useUni: the store is tidb's unistore (implements async commit, 1PC and Flush) instead of mocktikv
var useUni bool

type World struct {
	rec     *Recorder
	clk     *vclock
	mock    *testutils.MockClient
	cluster *testutils.MockCluster
	uni     *unistore.Cluster
	base    tikv.Client   // what the clients' stores talk to (below their gates)
	dbg     *tikv.KVStore // unistore mode: an ungated store used to read the MVCC projection
	pdc     pd.Client
	nkeys   int
	exec    sync.Mutex // serialises RPC execution + its log line + projection
	clients map[string]*Client
	rng     *rand.Rand

	splitAt        map[int]bool
	prio           map[string]int // non-nil: priority scheduling for this scenario
	rpcs           int
	boundedReverse bool
	epoch          int
	bg             int64 // background goroutines of transactions started and not yet finished (lifecycle hooks)

	schedMu sync.Mutex
	parked  []*parkedRPC
	sched   bool // controlled scheduling on
	stop    chan struct{}
}

type parkedRPC struct {
	waited int
	ch     chan struct{}
	done   chan struct{}
	cl     string
	cmd    string
}

type Client struct {
	name  string
	store *tikv.KVStore
	gate  *Gate
	w     *World
}

// backend creates a fresh store with the given region borders
func (w *World) backend(splits []int) {
	var sk [][]byte
	for _, s := range splits {
		sk = append(sk, physOf(s))
	}
	if w.dbg != nil {
		go w.dbg.Close()
		w.dbg = nil
	}
	if useUni {
		client, pdc, cluster, err := unistore.New("", nil, constants.NullKeyspaceID, nil)
		if err != nil {
			panic(err)
		}
		if len(sk) > 0 {
			unistore.BootstrapWithMultiRegions(cluster, sk...)
		} else {
			unistore.BootstrapWithSingleStore(cluster)
		}
		if old, ok := w.base.(*uniWrap); ok {
			go old.RPCClient.Close() // the previous scenario's server
		}
		w.uni, w.pdc, w.base = cluster, pdc, &uniWrap{RPCClient: client, log: func(M) {}, noClose: true}
		w.mock, w.cluster = nil, nil
		return
	}
	mock, cluster, pdc, err := testutils.NewMockTiKV("", nil)
	if err != nil {
		panic(err)
	}
	testutils.BootstrapWithMultiRegions(cluster, sk...)
	w.mock, w.cluster, w.pdc, w.base = mock, cluster, pdc, mock
}

func newWorld(outPath string, seed int64, nkeys int, splits []int) *World {
	w := &World{rec: newRecorder(outPath), clk: &vclock{physical: 1000}, nkeys: nkeys,
		clients: map[string]*Client{}, rng: rand.New(rand.NewSource(seed)), splitAt: map[int]bool{}}
	w.backend(splits)
	return w
}

// reset starts a new scenario on a fresh store (same recorder).
func (w *World) reset(info M, splits []int) {
	for _, c := range w.clients {
		c.gate.dead.Store(true)
	}
	// no request is being executed while the store is swapped; whoever arrives afterwards belongs to an older epoch
	w.exec.Lock()
	w.epoch++
	w.backend(splits)
	w.exec.Unlock()
	for _, c := range w.clients {
		c.store.Close()
	}
	w.clients = map[string]*Client{}
	w.splitAt = map[int]bool{}
	w.prio = nil
	if w.rng.Intn(2) == 0 {
		w.prio = map[string]int{}
	}
	w.rpcs = 0

	for _, s := range splits {
		w.splitAt[s] = true
	}
	w.clk = &vclock{physical: 1000}
	e := M{"ev": "reset", "nkeys": w.nkeys, "splits": splits}
	for k, v := range info {
		e[k] = v
	}
	if _, ok := e["lossless"]; !ok {
		// no request or response is lost and nobody crashes in these families: a finished transaction must not leave a lock
		// (not on unistore: it keeps no commit record for a lock-only secondary key, so a background commit that finds such a
		// key already resolved is refused as a whole and legitimately leaves its other locks to the next reader)
		e["lossless"] = (e["kind"] == "c01" || e["kind"] == "c06") && !useUni
	}
	w.rec.emit(e)
}

// the clients of a keyspace run live in keyspace ksID, except the "foreign" one which lives in the next keyspace
func (w *World) keyspaceOf(name string) uint32 {
	if ksID == 0 {
		return 0
	}
	if name == "foreign" {
		return ksID + 1
	}
	return ksID
}

func (w *World) client(name string) *Client {
	if c, ok := w.clients[name]; ok {
		return c
	}
	c := &Client{name: name, w: w}
	g := &Gate{w: w, name: name, epoch: w.epoch}
	c.gate = g
	var store *tikv.KVStore
	var err error
	if name == "foreign" {
		// the tenant of the neighbouring keyspace is not part of the recorded history: no gate
		id := w.keyspaceOf(name)
		meta := keyspacepb.KeyspaceMeta{Keyspace: &keyspacepb.KeyspaceMeta_Id{Id: id}, Name: fmt.Sprintf("ks%d", id), State: keyspacepb.KeyspaceState_ENABLED}
		store, err = tikv.NewTestKeyspaceTiKVStore(w.base, &vpd{Client: w.pdc, w: w, name: name, ks: &meta}, nil, nil, 0, meta)
		if err != nil {
			panic(err)
		}
		c.store = store
		w.clients[name] = c
		return c
	}
	if id := w.keyspaceOf(name); id != 0 {
		meta := keyspacepb.KeyspaceMeta{Keyspace: &keyspacepb.KeyspaceMeta_Id{Id: id}, Name: fmt.Sprintf("ks%d", id), State: keyspacepb.KeyspaceState_ENABLED}
		store, err = tikv.NewTestKeyspaceTiKVStore(w.base, &vpd{Client: w.pdc, w: w, name: name, ks: &meta}, func(cl tikv.Client) tikv.Client { g.Client = cl; return g }, nil, 0, meta)
	} else {
		store, err = tikv.NewTestTiKVStore(w.base, &vpd{Client: w.pdc, w: w, name: name}, func(cl tikv.Client) tikv.Client { g.Client = cl; return g }, nil, 0)
	}
	if err != nil {
		panic(err)
	}
	c.store = store
	w.clients[name] = c
	return c
}

// projection of the store: lock and write records of every key of the universe
func (w *World) proj() M {
	var get func(key []byte) *kvrpcpb.MvccInfo
	if useUni {
		get = w.uniMvcc
	} else {
		get = w.mock.MvccStore.(interface {
			MvccGetByKey(key []byte) *kvrpcpb.MvccInfo
		}).MvccGetByKey
	}
	locks := make([]M, w.nkeys)
	writes := make([][]M, w.nkeys)
	for i := 1; i <= w.nkeys; i++ {
		info := get(physOf(i))
		locks[i-1] = M{"ts": 0, "primary": 0, "kind": "None"}
		writes[i-1] = []M{}
		if info == nil {
			continue
		}
		if l := info.GetLock(); l != nil {
			locks[i-1] = M{"ts": cts(l.StartTs), "primary": keyIdx(logicalOf(l.Primary)), "kind": lockKind(l.Type)}
		}
		for _, wr := range info.GetWrites() {
			writes[i-1] = append(writes[i-1], M{"type": wr.Type.String(), "start": cts(wr.StartTs), "commit": cts(wr.CommitTs), "val": valInt(wr.ShortValue)})
		}
	}
	return M{"lock": locks, "writes": writes}
}

// logicalOf strips the clients' keyspace prefix from a key read straight from the store
func logicalOf(k []byte) []byte {
	if ksID != 0 && len(k) >= 4 && string(k[:4]) == string(ksPrefix(ksID)) {
		return k[4:]
	}
	return k
}

// uniMvcc reads the MVCC records of one key from unistore with the debug command, through an ungated store
func (w *World) uniMvcc(key []byte) *kvrpcpb.MvccInfo {
	if w.dbg == nil {
		st, err := tikv.NewTestTiKVStore(w.base, &vpd{Client: w.pdc, w: w, name: "dbg"}, nil, nil, 0)
		if err != nil {
			panic(err)
		}
		w.dbg = st
	}
	last := ""
	for try := 0; try < 200; try++ {
		if try > 3 {
			time.Sleep(5 * time.Millisecond)
		}
		bo := tikv.NewBackofferWithVars(context.Background(), 5000, nil)
		loc, err := w.dbg.GetRegionCache().LocateKey(bo, key)
		if err != nil {
			last = "locate: " + err.Error()
			continue
		}
		req := tikvrpc.NewRequest(tikvrpc.CmdMvccGetByKey, &kvrpcpb.MvccGetByKeyRequest{Key: key})
		resp, err := w.dbg.SendReq(bo, req, loc.Region, time.Second)
		if err != nil || resp.Resp == nil {
			last = fmt.Sprint("send: ", err)
			continue
		}
		r := resp.Resp.(*kvrpcpb.MvccGetByKeyResponse)
		if r.RegionError != nil {
			last = "region error: " + r.RegionError.String()
			continue
		}
		return r.Info
	}
	panic("verif: cannot read the MVCC projection from unistore: " + last)
}

func lockKind(op kvrpcpb.Op) string {
	switch op {
	case kvrpcpb.Op_Put:
		return "Put"
	case kvrpcpb.Op_Del:
		return "Del"
	case kvrpcpb.Op_Lock:
		return "Lock"
	case kvrpcpb.Op_PessimisticLock:
		return "Pessimistic"
	}
	return op.String()
}

func (w *World) advance(ms int64) {
	w.exec.Lock()
	w.clk.advance(ms)
	w.rec.emit(M{"ev": "clock", "advance": int(ms)})
	w.exec.Unlock()
	// let every store's low-resolution timestamp (the resolvers' clock) see the jump
	for _, c := range w.clients {
		if !c.gate.dead.Load() {
			_, _ = c.store.CurrentTimestamp("global")
		}
	}
}

func (w *World) split(atKey int) {
	w.exec.Lock()
	defer w.exec.Unlock()
	if w.splitAt[atKey] || atKey <= 1 { // already a region border (the cluster keeps encoded keys, so the harness tracks borders itself)
		return
	}
	w.splitAt[atKey] = true
	if useUni {
		region, _, _, _ := w.uni.GetRegionByKey(codec.EncodeBytes(nil, physOf(atKey)))
		if region == nil {
			return
		}
		newID, peerID := w.uni.AllocID(), w.uni.AllocID()
		w.uni.Split(region.Id, newID, physOf(atKey), []uint64{peerID}, peerID)
	} else {
		region, _, _, _ := w.cluster.GetRegionByKey(physOf(atKey))
		if region == nil {
			return
		}
		newID, peerID := w.cluster.AllocID(), w.cluster.AllocID()
		w.cluster.Split(region.Id, newID, physOf(atKey), []uint64{peerID}, peerID)
	}
	w.rec.emit(M{"ev": "split", "at": atKey})
}

// ---------------------------------------------------------------------------------------------
// the gate
type Action struct {
	kind string // "", drop_req, drop_resp, crash_before, crash_after, not_leader, epoch_not_match, server_busy, stale_command, region_not_found
	pre  func() // runs before the RPC is executed, outside every lock (may drive other clients)
}

type Gate struct {
	tikv.Client
	w        *World
	name     string
	dead     atomic.Bool
	blackout atomic.Bool                                // every further protocol request of this client is dropped (the client keeps running)
	epoch    int                                        // scenario this gate belongs to; a late RPC of an earlier scenario is refused
	n        int64                                      // RPCs of this client seen so far (protocol commands only)
	policy   func(idx int, req *tikvrpc.Request) Action // called once per arriving RPC, under schedMu
	faults   []string                                   // injected faults, for the evidence
}

var errCrashed = errors.New("verif: client crashed")
var errLost = errors.New("verif: message lost")

func isProtocolCmd(t tikvrpc.CmdType) bool {
	switch t {
	case tikvrpc.CmdPrewrite, tikvrpc.CmdCommit, tikvrpc.CmdBatchRollback, tikvrpc.CmdPessimisticLock, tikvrpc.CmdPessimisticRollback,
		tikvrpc.CmdCheckTxnStatus, tikvrpc.CmdCheckSecondaryLocks, tikvrpc.CmdResolveLock, tikvrpc.CmdTxnHeartBeat, tikvrpc.CmdCleanup,
		tikvrpc.CmdGet, tikvrpc.CmdBatchGet, tikvrpc.CmdScan, tikvrpc.CmdScanLock, tikvrpc.CmdGC, tikvrpc.CmdDeleteRange, tikvrpc.CmdFlush, tikvrpc.CmdBufferBatchGet:
		return true
	}
	return false
}

func (g *Gate) SendRequest(ctx context.Context, addr string, req *tikvrpc.Request, timeout time.Duration) (*tikvrpc.Response, error) {
	if g.dead.Load() || g.epoch != g.w.epoch {
		return nil, errCrashed
	}
	if !isProtocolCmd(req.Type) {
		return g.Client.SendRequest(ctx, addr, req, timeout)
	}
	w := g.w
	if req.Type == tikvrpc.CmdCheckSecondaryLocks {
		// a resolver asks every region of an async-commit transaction at once and digests the answers as they come:
		// vary the order in which its requests reach the gate
		time.Sleep(time.Duration(rand.Intn(1500)) * time.Microsecond)
	}
	w.schedMu.Lock()
	idx := int(g.n)
	g.n++
	w.rpcs++
	if w.rpcs == rpcBudget {
		// a single scenario never needs this many RPCs: some call is spinning.  Record it and make every client fail fast
		// so that the spinning call returns; the monitors report the event.
		w.rec.emit(M{"ev": "livelock", "client": g.name, "cmd": req.Type.String(), "rpcs": w.rpcs})
		for _, c := range w.clients {
			c.gate.dead.Store(true)
		}
	}
	act := Action{}
	if g.policy != nil {
		act = g.policy(idx, req)
	}
	if g.blackout.Load() && act.kind == "" {
		act = Action{kind: "drop_req"}
	}
	var p *parkedRPC
	if w.sched {
		p = &parkedRPC{ch: make(chan struct{}), done: make(chan struct{}), cl: g.name, cmd: req.Type.String()}
		w.parked = append(w.parked, p)
	}
	w.schedMu.Unlock()
	if p != nil {
		select {
		case <-p.ch:
		case <-ctx.Done():
			// still wait for our turn: cancellation is the client's business after the RPC
			<-p.ch
		}
		defer close(p.done)
	}
	if g.dead.Load() {
		return nil, errCrashed
	}
	if act.pre != nil {
		act.pre()
	}
	if act.kind == "fallback" && req.Type == tikvrpc.CmdPrewrite {
		// the store cannot commit at or below this ceiling: it gives up async commit / 1PC for this request and writes an
		// ordinary lock (what TiKV does when the commit ts would exceed the schema-lease bound the client sent)
		// (only for a request that locks something: TiKV computes no commit-ts ceiling for a batch of non-locking existence
		// checks and so never falls back on one, unistore would)
		for _, m := range req.Prewrite().Mutations {
			if m.Op != kvrpcpb.Op_CheckNotExists {
				req.Prewrite().MaxCommitTs = req.Prewrite().StartVersion + 1
				break
			}
		}
	}
	switch act.kind {
	case "crash_before":
		g.dead.Store(true)
		w.rec.emit(M{"ev": "rpc", "client": g.name, "idx": idx, "cmd": req.Type.String(), "fault": act.kind, "executed": false, "req": reqSummary(req), "resp": M{"kind": "none"}})
		w.rec.emit(M{"ev": "crash", "client": g.name})
		return nil, errCrashed
	case "drop_req":
		w.rec.emit(M{"ev": "rpc", "client": g.name, "idx": idx, "cmd": req.Type.String(), "fault": act.kind, "executed": false, "req": reqSummary(req), "resp": M{"kind": "none"}})
		return nil, errLost
	case "not_leader", "epoch_not_match", "server_busy", "stale_command", "region_not_found":
		w.rec.emit(M{"ev": "rpc", "client": g.name, "idx": idx, "cmd": req.Type.String(), "fault": act.kind, "executed": false, "req": reqSummary(req), "resp": M{"kind": "region_error"}})
		return tikvrpc.GenRegionErrorResp(req, regionErr(act.kind, req))
	}
	// summarised before the store sees the request: unistore runs in process and rewrites some of its fields in place
	// (min-commit-ts, and the async-commit / 1PC flags when it falls back)
	rs := reqSummary(req)
	w.exec.Lock()
	if g.epoch != w.epoch {
		// a straggler of the previous scenario (background commit / cleanup of a dead client) that got past the check above
		// while the world was being reset: its store is gone
		w.exec.Unlock()
		return nil, errCrashed
	}
	resp, err := func() (resp *tikvrpc.Response, err error) {
		defer func() {
			if e := recover(); e != nil {
				// the in-process store panicked on this request (it does so for requests outside the addressed region)
				w.rec.emit(M{"ev": "store_panic", "client": g.name, "cmd": req.Type.String(), "req": reqSummary(req), "msg": fmt.Sprint(e)})
				w.rec.w.Flush()
				err = fmt.Errorf("verif: store panic: %v", e)
			}
		}()
		return g.Client.SendRequest(ctx, addr, req, timeout)
	}()
	ev := M{"ev": "rpc", "client": g.name, "idx": idx, "cmd": req.Type.String(), "fault": "none", "executed": true, "req": rs, "resp": respSummary(req, resp, err), "proj": w.proj()}
	if act.kind != "" {
		ev["fault"] = act.kind
	}
	w.rec.emit(ev)
	if act.kind == "crash_after" {
		g.dead.Store(true)
		w.rec.emit(M{"ev": "crash", "client": g.name})
	}
	w.exec.Unlock()
	if req.Type == tikvrpc.CmdCheckSecondaryLocks && err == nil && resp != nil {
		// the adversarial order for a resolver that digests the regions' answers as they come: an answer that reports a
		// missing lock overtakes the answers that report every lock in place
		if r, ok := resp.Resp.(*kvrpcpb.CheckSecondaryLocksResponse); ok && r.CommitTs == 0 && len(r.Locks) == len(req.CheckSecondaryLocks().Keys) {
			time.Sleep(3 * time.Millisecond)
		}
	}
	switch act.kind {
	case "drop_resp":
		return nil, errLost
	case "crash_after":
		return nil, errCrashed
	case "undetermined":
		// the store carried the request out but answers that the result is undetermined (e.g. the leader stepped
		// down while applying): the client must treat the outcome as unknown
		return tikvrpc.GenRegionErrorResp(req, &errorpb.Error{Message: "verif undetermined", UndeterminedResult: &errorpb.UndeterminedResult{}})
	}
	return resp, err
}

func (g *Gate) SendRequestAsync(ctx context.Context, addr string, req *tikvrpc.Request, cb async.Callback[*tikvrpc.Response]) {
	go func() {
		cb.Schedule(g.SendRequest(ctx, addr, req, 0))
	}()
}

func regionErr(kind string, req *tikvrpc.Request) *errorpb.Error {
	switch kind {
	case "not_leader":
		return &errorpb.Error{Message: "verif not leader", NotLeader: &errorpb.NotLeader{RegionId: req.Context.GetRegionId()}}
	case "epoch_not_match":
		return &errorpb.Error{Message: "verif epoch not match", EpochNotMatch: &errorpb.EpochNotMatch{}}
	case "server_busy":
		return &errorpb.Error{Message: "verif busy", ServerIsBusy: &errorpb.ServerIsBusy{Reason: "verif"}}
	case "stale_command":
		return &errorpb.Error{Message: "verif stale", StaleCommand: &errorpb.StaleCommand{}}
	}
	return &errorpb.Error{Message: "verif region not found", RegionNotFound: &errorpb.RegionNotFound{RegionId: req.Context.GetRegionId()}}
}

// ---------------------------------------------------------------------------------------------
// controlled scheduling: one parked RPC is released at a time, chosen by the seeded generator once the set
// of parked RPCs has been stable for a short while
func (w *World) startScheduler() {
	w.schedMu.Lock()
	w.sched = true
	w.stop = make(chan struct{})
	stop := w.stop
	w.schedMu.Unlock()
	go func() {
		last := -1
		for {
			select {
			case <-stop:
				return
			default:
			}
			time.Sleep(150 * time.Microsecond)
			w.schedMu.Lock()
			n := len(w.parked)
			if n == 0 || n != last {
				last = n
				w.schedMu.Unlock()
				continue
			}
			// deterministic order of candidates, seeded choice
			sort.SliceStable(w.parked, func(i, j int) bool {
				if w.parked[i].cl != w.parked[j].cl {
					return w.parked[i].cl < w.parked[j].cl
				}
				return w.parked[i].cmd < w.parked[j].cmd
			})
			i := w.rng.Intn(n)
			if w.prio != nil {
				// PCT-style: release the parked RPC of the client with the highest priority; priorities change at a few
				// random points, so one client's request can stay parked while others run through several calls
				if w.rng.Intn(12) == 0 {
					for k := range w.prio {
						w.prio[k] = w.rng.Intn(1000)
					}
				}
				best := -1
				for j, q := range w.parked {
					if _, ok := w.prio[q.cl]; !ok {
						w.prio[q.cl] = w.rng.Intn(1000)
					}
					q.waited++
					if best < 0 || w.prio[q.cl] > w.prio[w.parked[best].cl] {
						best = j
					}
				}
				// among the RPCs of the chosen client pick at random (no fixed order inside one client), and never let any
				// RPC wait for more than a bounded number of releases: the schedule stays fair
				var same []int
				for j, q := range w.parked {
					if q.cl == w.parked[best].cl {
						same = append(same, j)
					}
				}
				i = same[w.rng.Intn(len(same))]
				for j, q := range w.parked {
					if q.waited > 40 {
						i = j
						break
					}
				}
			}
			p := w.parked[i]
			w.parked = append(w.parked[:i], w.parked[i+1:]...)
			last = -1
			w.schedMu.Unlock()
			close(p.ch)
			select {
			case <-p.done:
			case <-time.After(5 * time.Second):
			}
		}
	}()
}

func (w *World) stopScheduler() {
	w.schedMu.Lock()
	if w.sched {
		w.sched = false
		close(w.stop)
		for _, p := range w.parked {
			close(p.ch)
		}
		w.parked = nil
	}
	w.schedMu.Unlock()
}

func fmtErr(err error) string {
	if err == nil {
		return "nil"
	}
	return fmt.Sprint(err)
}
