package main

// C14, second half: the range task (sub-ranges handed to the handler), the delete-range task built on it, and the
// refusal of snapshot reads below the transaction safe point the store has learned.

import (
	"context"
	"errors"
	"math/rand"
	"sort"
	"sync"
	"time"

	"github.com/tikv/client-go/v2/kv"
	"github.com/tikv/client-go/v2/txnkv/rangetask"
)

func runC14rt(w *World, rng *rand.Rand, n int) {
	lays := [][]int{{}, {3}, {2, 3, 4}, {2}, {4}, {2, 4}}
	for sc := 0; sc < n; sc++ {
		lay := lays[rng.Intn(len(lays))]
		w.reset(M{"kind": "c14rt", "scenario": sc, "lossless": false}, lay)
		r := &Run{w: w, txns: map[string]*Txn{}}
		r.setup(map[int]int{1: 1, 2: 2, 3: 3, 4: 4})
		w.drained(0) // the set-up transaction's secondaries are committed before anything is measured
		cl := w.client("g")
		// ---- range task with a recording handler
		lo, hi := rng.Intn(5), 0
		if rng.Intn(3) != 0 {
			hi = lo + 1 + rng.Intn(5-lo)
		}
		conc := 1 + rng.Intn(3)
		per := 1 + rng.Intn(3)
		failAt := -1
		if rng.Intn(4) == 0 {
			failAt = rng.Intn(3)
		}
		var mu sync.Mutex
		var ranges [][2]int
		calls := 0
		handler := func(ctx context.Context, kr kv.KeyRange) (rangetask.TaskStat, error) {
			mu.Lock()
			defer mu.Unlock()
			ranges = append(ranges, [2]int{keyIdx(kr.StartKey), keyIdx(kr.EndKey)})
			calls++
			if calls-1 == failAt {
				return rangetask.TaskStat{}, errors.New("verif: handler failure")
			}
			return rangetask.TaskStat{CompletedRegions: 1}, nil
		}
		if rng.Intn(4) == 0 { // the layout changes while the task is being partitioned
			go func() { time.Sleep(time.Duration(rng.Intn(300)) * time.Microsecond); w.split(1 + rng.Intn(4)) }()
		}
		runner := rangetask.NewRangeTaskRunner("verif-range", cl.store, conc, handler)
		runner.SetRegionsPerTask(per)
		err := runner.RunOnRange(context.Background(), keyOf(lo), keyOf(hi))
		sort.Slice(ranges, func(i, j int) bool { return ranges[i][0] < ranges[j][0] })
		rs := []M{}
		for _, x := range ranges {
			rs = append(rs, M{"s": x[0], "e": x[1]})
		}
		w.rec.emit(M{"ev": "rangetask", "lo": lo, "hi": hi, "ranges": rs, "class": errClass(err), "failed_handler": failAt >= 0 && failAt < calls, "conc": conc, "per": per})
		// ---- delete range
		dlo, dhi := 1+rng.Intn(4), 0
		if rng.Intn(4) != 0 {
			dhi = dlo + 1 + rng.Intn(5-dlo)
		}
		w.exec.Lock()
		before := w.proj()
		w.exec.Unlock()
		task := rangetask.NewDeleteRangeTask(cl.store, keyOf(dlo), keyOf(dhi), 1+rng.Intn(2))
		err = task.Execute(context.Background())
		w.exec.Lock()
		w.rec.emit(M{"ev": "delete_range", "lo": dlo, "hi": dhi, "class": errClass(err), "before": before, "proj": w.proj()})
		w.exec.Unlock()
		// ---- snapshot reads around the cached transaction safe point
		rd := w.client("rd")
		now, err := rd.store.CurrentTimestamp("global")
		if err == nil {
			sp := now - uint64(rng.Intn(3))
			rd.store.UpdateTxnSafePointCache(sp, time.Now())
			for _, d := range []int64{-2, -1, 0, 1} {
				ts := uint64(int64(sp) + d)
				snap := rd.store.GetSnapshot(ts)
				_, gerr := snap.Get(context.Background(), keyOf(1))
				_, berr := snap.BatchGet(context.Background(), keysOf([]int{1, 2}))
				it, serr := snap.Iter(keyOf(1), nil)
				if serr == nil {
					_, serr = pairsOf(it)
				}
				w.rec.emit(M{"ev": "safepoint_read", "sp": cts(sp), "ts": cts(ts), "get": errClass(gerr), "batchget": errClass(berr), "scan": errClass(serr)})
			}
			rd.store.UpdateTxnSafePointCache(0, time.Now())
			// the store learns a newer safe point while a scan is under way: the batches fetched afterwards are reads below it
			if tx, berr := rd.store.Begin(); berr == nil {
				for k := 1; k <= 4; k++ {
					_ = tx.Set(keyOf(k), valOf(40+k))
				}
				_ = tx.Commit(context.Background())
			}
			ts, _ := rd.store.CurrentTimestamp("global")
			snap := rd.store.GetSnapshot(ts)
			snap.SetScanBatchSize(2)
			it, serr := snap.Iter(keyOf(1), nil)
			first, later, fetches := 0, 0, 0
			if serr == nil {
				if it.Valid() {
					first++
					serr = it.Next()
				}
				rd.store.UpdateTxnSafePointCache(ts+5, time.Now())
				w.schedMu.Lock()
				n0 := rd.gate.n
				w.schedMu.Unlock()
				for serr == nil && it.Valid() {
					later++
					serr = it.Next()
				}
				it.Close()
				w.schedMu.Lock()
				fetches = int(rd.gate.n - n0)
				w.schedMu.Unlock()
			}
			w.rec.emit(M{"ev": "safepoint_midscan", "sp": cts(ts + 5), "ts": cts(ts), "scan": errClass(serr), "first": first, "later": later, "fetches": fetches})
			rd.store.UpdateTxnSafePointCache(0, time.Now())
		}
		w.recoverAll(r)
	}
}
