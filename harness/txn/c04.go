package main

// C04's dedicated enumeration: transaction shapes x layouts x tiny commit batch size (several batches per region)
// x a region error / split at every RPC index that forces batches to be re-grouped, plus heart-beat scenarios with a
// shortened managed TTL.  The request stream is judged by ProtocolMonitor.tla.

import (
	"math/rand"
	"sync/atomic"
	"time"

	"github.com/tikv/client-go/v2/kv"
	"github.com/tikv/client-go/v2/tikvrpc"
	"github.com/tikv/client-go/v2/txnkv/transaction"
)

func runC04(w *World, rng *rand.Rand, div int) {
	if div < 1 {
		div = 1
	}
	oldBatch := kv.TxnCommitBatchSize.Load()
	defer kv.TxnCommitBatchSize.Store(oldBatch)
	cnt := 0
	for _, batch := range []uint64{oldBatch, 1} { // 1 byte: every key its own batch
		kv.TxnCommitBatchSize.Store(batch)
		for _, sh := range append(append([]shape{}, shapes...), assertShapes...) {
			for _, lay := range layouts {
				for _, pess := range []bool{false, true} {
					w.reset(M{"kind": "c04dry", "shape": sh.name, "pess": pess, "batch": int(batch)}, lay)
					r := &Run{w: w, txns: map[string]*Txn{}}
					r.setup(baseData)
					n := runVictim(w, r, sh, pess, nil)
					w.recoverAll(r)
					for i := 0; i < n; i++ {
						for _, f := range []string{"epoch_not_match", "split", "not_leader", "server_busy"} {
							cnt++
							if (cnt+int(rng.Int63()%int64(div)))%div != 0 {
								continue
							}
							w.reset(M{"kind": "c04", "shape": sh.name, "pess": pess, "batch": int(batch), "i1": i, "f1": f, "lossless": true}, lay)
							r := &Run{w: w, txns: map[string]*Txn{}}
							r.setup(baseData)
							var f1 int32
							runVictim(w, r, sh, pess, func(idx int, req *tikvrpc.Request) Action {
								if idx == i && atomic.CompareAndSwapInt32(&f1, 0, 1) {
									if f == "split" {
										// a real split between two attempts: the retried request meets a changed layout
										return Action{kind: "epoch_not_match", pre: func() { w.split(2); w.split(3); w.split(4) }}
									}
									return faultAction(w, r, f, "a")
								}
								return Action{}
							})
							w.recoverAll(r)
						}
					}
				}
			}
		}
	}
	kv.TxnCommitBatchSize.Store(oldBatch)
	// heart-beats: managed TTL shortened so that the TTL manager's ticker fires while the transaction is open
	oldTTL := atomic.LoadUint64(&transaction.ManagedLockTTL)
	atomic.StoreUint64(&transaction.ManagedLockTTL, 120)
	defer atomic.StoreUint64(&transaction.ManagedLockTTL, oldTTL)
	for sc := 0; sc < 4; sc++ {
		w.reset(M{"kind": "c04hb", "scenario": sc, "lossless": true}, layouts[sc%len(layouts)])
		r := &Run{w: w, txns: map[string]*Txn{}}
		r.setup(baseData)
		r.do(M{"c": "begin", "txn": "h", "client": "h", "pess": true, "async": false, "onepc": false})
		r.do(M{"c": "lock", "txn": "h", "ks": []int{3, 1}, "retvals": false, "nowait": true})
		time.Sleep(200 * time.Millisecond) // a few ticks of the TTL manager
		w.advance(500)
		time.Sleep(150 * time.Millisecond)
		r.do(M{"c": "set", "txn": "h", "k": 3, "v": 33})
		if sc%2 == 0 {
			r.do(M{"c": "commit", "txn": "h"})
		} else {
			r.do(M{"c": "rollback", "txn": "h"})
		}
		time.Sleep(250 * time.Millisecond) // no heart-beat may follow the end (one straggler is tolerated)
		w.drained(0)
		w.recoverAll(r)
	}
}
