package retry

// C20 harness: seeded random sequences of Backoffer method calls with sleeping skipped by the
// repository's own failpoint; after each call the counters of the touched back-offer are logged.
// Trace_Backoff.tla decides.

import (
	"bufio"
	"context"
	"encoding/json"
	stderrors "errors"
	"math/rand"
	"os"
	"strconv"
	"testing"

	"github.com/pingcap/failpoint"
	"github.com/pkg/errors"
	tikverr "github.com/tikv/client-go/v2/error"
	"github.com/tikv/client-go/v2/kv"
	"github.com/tikv/client-go/v2/util"
)

var errPassed = stderrors.New("verif-passed-error")
var errCustomFull = stderrors.New("verif-custom-full")
var errTiny = stderrors.New("verif-tiny")

var vCustomFull = NewConfig("customFull", nil, NewBackoffFnCfg(3, 700, FullJitter), errCustomFull)
var vTiny = NewConfig("tiny", nil, NewBackoffFnCfg(1, 10, NoJitter), errTiny)

var vkinds = map[string]*Config{
	"regionMiss": BoRegionMiss, "tikvRPC": BoTiKVRPC, "tikvServerBusy": BoTiKVServerBusy,
	"txnLockFast": BoTxnLockFast, "tikvDiskFull": BoTiKVDiskFull, "customFull": vCustomFull, "tiny": vTiny,
}
var vkindNames = []string{"regionMiss", "tikvRPC", "tikvServerBusy", "txnLockFast", "tikvDiskFull", "customFull", "tiny"}

// vBackoff calls BackoffWithCfgAndMaxSleep and turns a panic inside it into a result class of its own.
func vBackoff(b *Backoffer, cfg *Config, m int) (res string) {
	defer func() {
		if e := recover(); e != nil {
			res = "panic"
		}
	}()
	return classify(b.BackoffWithCfgAndMaxSleep(cfg, m, errPassed))
}

func classify(err error) string {
	if err == nil {
		return "nil"
	}
	c := errors.Cause(err)
	if _, ok := c.(tikverr.ErrQueryInterruptedWithSignal); ok {
		return "killed"
	}
	switch c {
	case errPassed:
		return "passed"
	case tikverr.ErrRegionUnavailable:
		return "ErrRegionUnavailable"
	case tikverr.ErrTiKVServerTimeout:
		return "ErrTiKVServerTimeout"
	case tikverr.ErrTiKVServerBusy:
		return "ErrTiKVServerBusy"
	case tikverr.ErrResolveLockTimeout:
		return "ErrResolveLockTimeout"
	case tikverr.ErrTiKVDiskFull:
		return "ErrTiKVDiskFull"
	case errCustomFull:
		return "ErrCustomFull"
	case errTiny:
		return "ErrTiny"
	}
	return "unknown:" + err.Error()
}

type vbo struct {
	b      *Backoffer
	cancel context.CancelFunc
	killed *uint32
	dead   bool
}

func st(b *Backoffer) map[string]interface{} {
	sm := map[string]int{}
	tm := map[string]int{}
	for _, k := range vkindNames {
		sm[k] = b.GetBackoffSleepMS()[k]
		tm[k] = b.GetBackoffTimes()[k]
	}
	return map[string]interface{}{"maxSleep": b.maxSleep, "total": b.GetTotalSleep(), "excluded": b.excludedSleep,
		"errorsNum": b.ErrorsNum(), "sleepMs": sm, "times": tm}
}

func TestVerifBackoff(t *testing.T) {
	outp := os.Getenv("VERIF_OUT")
	if outp == "" {
		t.Skip("VERIF_OUT not set")
	}
	seed, _ := strconv.ParseInt(os.Getenv("VERIF_SEED"), 10, 64)
	nscen, _ := strconv.Atoi(os.Getenv("VERIF_N"))
	if nscen == 0 {
		nscen = 300
	}
	util.EnableFailpoints()
	if err := failpoint.Enable("tikvclient/fastBackoffBySkipSleep", "return"); err != nil {
		t.Fatal(err)
	}
	defer failpoint.Disable("tikvclient/fastBackoffBySkipSleep")
	setBackoffExcluded(BoTiKVServerBusy.name, 3000)
	defer setBackoffExcluded(BoTiKVServerBusy.name, 600000)
	f, err := os.Create(outp)
	if err != nil {
		t.Fatal(err)
	}
	defer f.Close()
	w := bufio.NewWriterSize(f, 1<<20)
	defer w.Flush()
	emit := func(m map[string]interface{}) {
		b, _ := json.Marshal(m)
		w.Write(b)
		w.WriteByte('\n')
	}
	rng := rand.New(rand.NewSource(seed))
	rand.Seed(seed)
	for sc := 0; sc < nscen; sc++ {
		emit(map[string]interface{}{"op": "reset", "scenario": sc})
		var bos []*vbo
		live := func() []int {
			var r []int
			for i, b := range bos {
				if !b.dead {
					r = append(r, i)
				}
			}
			return r
		}
		newBo := func() {
			max := []int{0, -1, 40, 600, 900, 3000, 20000, 2000000000}[rng.Intn(8)]
			weight := []int{1, 2, 2, 3}[rng.Intn(4)]
			lockFast := []int{1, 10, 10, 100}[rng.Intn(4)]
			killed := new(uint32)
			ctx, cancel := context.WithCancel(context.Background())
			vars := kv.NewVariables(killed)
			vars.BackOffWeight = weight
			vars.BackoffLockFast = lockFast
			b := NewBackofferWithVars(ctx, max, vars)
			bos = append(bos, &vbo{b: b, cancel: cancel, killed: killed})
			emit(map[string]interface{}{"op": "New", "max": max, "weight": weight, "lockFast": lockFast, "id": len(bos), "st": st(b)})
		}
		newBo()
		nops := 10 + rng.Intn(70)
		if sc%10 == 9 {
			// marathon: one kind, unlimited budget, far beyond the point where base*2^n leaves every integer range
			b := NewBackofferWithVars(context.Background(), 0, nil)
			bos = []*vbo{{b: b, cancel: func() {}, killed: new(uint32)}}
			emit(map[string]interface{}{"op": "reset", "scenario": sc})
			emit(map[string]interface{}{"op": "New", "max": 0, "weight": 2, "lockFast": 10, "id": 1, "st": st(b)})
			k := vkindNames[rng.Intn(len(vkindNames))]
			for i := 0; i < 70+rng.Intn(80); i++ {
				emit(map[string]interface{}{"op": "Backoff", "b": 1, "kind": k, "m": -1, "res": vBackoff(b, vkinds[k], -1), "st": st(b)})
			}
			continue
		}
		// bias: some scenarios concentrate on few kinds so that the budget is really spent
		focus := vkindNames
		if rng.Intn(2) == 0 {
			focus = []string{vkindNames[rng.Intn(len(vkindNames))], vkindNames[rng.Intn(len(vkindNames))]}
		}
		for i := 0; i < nops; i++ {
			lv := live()
			if len(lv) == 0 {
				break
			}
			bi := lv[rng.Intn(len(lv))]
			vb := bos[bi]
			r := rng.Intn(100)
			switch {
			case r < 70:
				k := focus[rng.Intn(len(focus))]
				m := -1
				if rng.Intn(4) == 0 {
					m = []int{0, 1, 5, 50, 400, 2500}[rng.Intn(6)]
				}
				emit(map[string]interface{}{"op": "Backoff", "b": bi + 1, "kind": k, "m": m, "res": vBackoff(vb.b, vkinds[k], m), "st": st(vb.b)})
			case r < 75 && len(bos) < 6:
				c := vb.b.Clone()
				bos = append(bos, &vbo{b: c, cancel: vb.cancel, killed: vb.killed})
				emit(map[string]interface{}{"op": "Clone", "b": bi + 1, "id": len(bos), "st": st(c)})
			case r < 82 && len(bos) < 6:
				c, cancel := vb.b.Fork()
				bos = append(bos, &vbo{b: c, cancel: cancel, killed: vb.killed})
				emit(map[string]interface{}{"op": "Fork", "b": bi + 1, "id": len(bos), "st": st(c)})
			case r < 88 && len(lv) > 1:
				fi := lv[rng.Intn(len(lv))]
				if fi == bi {
					continue
				}
				// prefer merging into a real ancestor
				tgt := bi
				if rng.Intn(3) != 0 {
					for p := bos[fi].b.parent; p != nil; p = p.parent {
						for j, o := range bos {
							if o.b == p && !o.dead && rng.Intn(2) == 0 {
								tgt = j
							}
						}
					}
				}
				if tgt == fi {
					continue
				}
				isAnc := false
				for p := bos[fi].b.parent; p != nil; p = p.parent {
					if p == bos[tgt].b {
						isAnc = true
					}
				}
				bos[tgt].b.UpdateUsingForked(bos[fi].b)
				if isAnc {
					bos[fi].dead = true // shares its maps with the ancestor from now on
				}
				emit(map[string]interface{}{"op": "Merge", "b": tgt + 1, "f": fi + 1, "st": st(bos[tgt].b)})
			case r < 91:
				vb.b.Reset()
				emit(map[string]interface{}{"op": "Reset", "b": bi + 1, "st": st(vb.b)})
			case r < 94:
				m := []int{0, 100, 900, 5000}[rng.Intn(4)]
				vb.b.ResetMaxSleep(m)
				emit(map[string]interface{}{"op": "ResetMaxSleep", "b": bi + 1, "max": m, "st": st(vb.b)})
			case r < 96:
				vb.cancel()
				emit(map[string]interface{}{"op": "Cancel", "b": bi + 1})
			case r < 97:
				*vb.killed = 1
				emit(map[string]interface{}{"op": "Kill", "b": bi + 1})
			}
		}
		for _, b := range bos {
			b.cancel()
		}
	}
}
