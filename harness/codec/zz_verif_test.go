package codec

// C19 harness: calls every exported function of util/codec (and the unexported descending
// byte-string decoder) on the model's boundary domain, on seeded random inputs and on
// corrupted / truncated encodings, and records (fn, input, output) as NDJSON. TLC evaluates
// Codec.tla on each record (Trace_Codec.tla) - this file decides nothing.

import (
	"bufio"
	"bytes"
	"encoding/binary"
	"encoding/json"
	"math/rand"
	"os"
	"strconv"
	"testing"
)

type vrec map[string]interface{}

var vw *bufio.Writer
var vcount int

func vemit(r vrec) {
	b, _ := json.Marshal(r)
	vw.Write(b)
	vw.WriteByte('\n')
	vcount++
}

func ints(b []byte) []int {
	r := make([]int, len(b))
	for i, c := range b {
		r[i] = int(c)
	}
	return r
}
func u64(v uint64) []int {
	var d [8]byte
	binary.BigEndian.PutUint64(d[:], v)
	return ints(d[:])
}

func safely(r vrec, f func()) {
	defer func() {
		if e := recover(); e != nil {
			r["panic"] = true
			r["ok"] = false
			r["out"] = []int{}
			r["rest"] = []int{}
		}
	}()
	f()
}

func recEncBytes(pre, d []byte) []byte {
	r := vrec{"fn": "EncodeBytes", "pre": ints(pre), "a": ints(d), "panic": false}
	var out []byte
	safely(r, func() {
		p := append(make([]byte, 0, len(pre)+rand.Intn(40)), pre...)
		out = EncodeBytes(p, d)
		r["out"] = ints(out)
	})
	vemit(r)
	return out
}

func recDecBytes(in []byte, desc bool, withBuf bool) {
	fn := "DecodeBytes"
	if desc {
		fn = "DecodeBytesDesc"
	}
	r := vrec{"fn": fn, "a": ints(in), "panic": false}
	safely(r, func() {
		inp := append([]byte{}, in...)
		var buf []byte
		if withBuf {
			buf = make([]byte, 3, 64)
		}
		var rest, val []byte
		var err error
		if desc {
			rest, val, err = decodeBytes(inp, buf, true)
		} else {
			rest, val, err = DecodeBytes(inp, buf)
		}
		r["ok"] = err == nil
		if err == nil {
			r["out"] = ints(val)
			r["rest"] = ints(rest)
		} else {
			r["out"] = []int{}
			r["rest"] = []int{}
		}
	})
	vemit(r)
}

type intCodec struct {
	name string
	enc  func([]byte, uint64) []byte
	dec  func([]byte) ([]byte, uint64, error)
	cmp  string // "" if the encoding is not claimed to be comparable
}

var intCodecs = []intCodec{
	{"Int", func(b []byte, v uint64) []byte { return EncodeInt(b, int64(v)) }, func(b []byte) ([]byte, uint64, error) { r, v, e := DecodeInt(b); return r, uint64(v), e }, "int"},
	{"IntDesc", func(b []byte, v uint64) []byte { return EncodeIntDesc(b, int64(v)) }, func(b []byte) ([]byte, uint64, error) { r, v, e := DecodeIntDesc(b); return r, uint64(v), e }, "intdesc"},
	{"Uint", EncodeUint, DecodeUint, "uint"},
	{"UintDesc", EncodeUintDesc, DecodeUintDesc, "uintdesc"},
	{"Varint", func(b []byte, v uint64) []byte { return EncodeVarint(b, int64(v)) }, func(b []byte) ([]byte, uint64, error) { r, v, e := DecodeVarint(b); return r, uint64(v), e }, ""},
	{"Uvarint", EncodeUvarint, DecodeUvarint, ""},
	{"ComparableVarint", func(b []byte, v uint64) []byte { return EncodeComparableVarint(b, int64(v)) }, func(b []byte) ([]byte, uint64, error) {
		r, v, e := DecodeComparableVarint(b)
		return r, uint64(v), e
	}, "int"},
	{"ComparableUvarint", EncodeComparableUvarint, DecodeComparableUvarint, "uint"},
}

func recEncInt(c intCodec, pre []byte, v uint64) []byte {
	r := vrec{"fn": "Encode" + c.name, "pre": ints(pre), "a": u64(v), "panic": false}
	var out []byte
	safely(r, func() {
		out = c.enc(append([]byte{}, pre...), v)
		r["out"] = ints(out)
	})
	vemit(r)
	return out
}

func recDecInt(c intCodec, in []byte) {
	r := vrec{"fn": "Decode" + c.name, "a": ints(in), "panic": false}
	safely(r, func() {
		rest, v, err := c.dec(append([]byte{}, in...))
		r["ok"] = err == nil
		if err == nil {
			r["out"] = u64(v)
			r["rest"] = ints(rest)
		} else {
			r["out"] = []int{}
			r["rest"] = []int{}
		}
	})
	vemit(r)
}

func isProperPrefix(a, b []byte) bool { return len(a) < len(b) && bytes.Equal(a, b[:len(a)]) }

var alpha = []byte{0, 1, 0x7f, 0x80, 0xfe, 0xff}

func domainBytes(thorough bool) [][]byte {
	var out [][]byte
	maxl := 2
	if thorough {
		maxl = 3
	}
	var gen func(cur []byte, n int)
	gen = func(cur []byte, n int) {
		out = append(out, append([]byte{}, cur...))
		if n == 0 {
			return
		}
		for _, a := range alpha {
			gen(append(cur, a), n-1)
		}
	}
	gen(nil, maxl)
	lens := []int{7, 8, 9, 15, 16, 17}
	for _, l := range lens {
		n := 1 << uint(l)
		step := 1
		if !thorough && l > 9 {
			step = 97
		}
		if thorough && l > 9 {
			step = 7
		}
		for m := 0; m < n; m += step {
			b := make([]byte, l)
			for i := 0; i < l; i++ {
				if m&(1<<uint(i)) != 0 {
					b[i] = 0xff
				}
			}
			out = append(out, b)
		}
	}
	return out
}

func boundaryInts() []uint64 {
	set := map[uint64]bool{}
	add := func(v uint64) { set[v] = true; set[v+1] = true; set[v-1] = true; set[^v] = true; set[-v] = true }
	for k := uint(0); k < 64; k++ {
		add(uint64(1) << k)
	}
	for k := uint(1); k <= 8; k++ {
		add(uint64(1)<<(8*k-1) - 1)
	}
	for k := uint(1); k <= 9; k++ { // varint 7-bit boundaries
		add(uint64(1) << (7 * k))
	}
	for _, v := range []uint64{0, 239, 240, 241, 247, 248, 255, 256, 0xff, 0xffff, 0xffffff, 0xffffffff, 0xffffffffff, 0xffffffffffff, 0xffffffffffffff} {
		add(v)
	}
	var out []uint64
	for v := range set {
		out = append(out, v)
	}
	// deterministic order
	for i := 1; i < len(out); i++ {
		for j := i; j > 0 && out[j] < out[j-1]; j-- {
			out[j], out[j-1] = out[j-1], out[j]
		}
	}
	return out
}

func randBytes(rng *rand.Rand, maxLen int) []byte {
	n := rng.Intn(maxLen + 1)
	if rng.Intn(4) == 0 {
		n = []int{7, 8, 9, 15, 16, 17, 23, 24, 25}[rng.Intn(9)]
	}
	b := make([]byte, n)
	for i := range b {
		if rng.Intn(3) == 0 {
			b[i] = byte(rng.Intn(256))
		} else {
			b[i] = alpha[rng.Intn(len(alpha))]
		}
	}
	return b
}

func randU64(rng *rand.Rand, bd []uint64) uint64 {
	switch rng.Intn(4) {
	case 0:
		return bd[rng.Intn(len(bd))]
	case 1:
		return rng.Uint64() >> uint(rng.Intn(64))
	case 2:
		return ^(rng.Uint64() >> uint(rng.Intn(64)))
	}
	return rng.Uint64()
}

func corruptions(rng *rand.Rand, e []byte, n int) [][]byte {
	var out [][]byte
	for i := 0; i < n; i++ {
		c := append([]byte{}, e...)
		switch rng.Intn(4) {
		case 0: // single byte replacement
			if len(c) > 0 {
				p := rng.Intn(len(c))
				if rng.Intn(2) == 0 {
					p = len(c) - 1 - rng.Intn(min(len(c), 10))
				}
				c[p] = []byte{0, 1, 0x7f, 0x80, 0xfe, 0xff, 247, 248, 246, 8, 9, 7, byte(rng.Intn(256))}[rng.Intn(13)]
			}
		case 1: // truncation
			if len(c) > 0 {
				c = c[:rng.Intn(len(c))]
			}
		case 2: // extension
			c = append(c, randBytes(rng, 4)...)
		case 3: // bit flip
			if len(c) > 0 {
				p := rng.Intn(len(c))
				c[p] ^= 1 << uint(rng.Intn(8))
			}
		}
		out = append(out, c)
	}
	return out
}

func TestVerifCodec(t *testing.T) {
	outp := os.Getenv("VERIF_OUT")
	if outp == "" {
		t.Skip("VERIF_OUT not set")
	}
	seed, _ := strconv.ParseInt(os.Getenv("VERIF_SEED"), 10, 64)
	thorough := os.Getenv("VERIF_TIER") == "thorough"
	nrand := 1500
	if thorough {
		nrand = 12000
	}
	f, err := os.Create(outp)
	if err != nil {
		t.Fatal(err)
	}
	defer f.Close()
	vw = bufio.NewWriterSize(f, 1<<20)
	defer vw.Flush()
	rng := rand.New(rand.NewSource(seed))

	// ---- byte strings: model domain ----
	dom := domainBytes(thorough)
	for i, d := range dom {
		var pre []byte
		if i%5 == 0 {
			pre = randBytes(rng, 3)
		}
		e := recEncBytes(pre, d)
		e = e[len(pre):]
		sfx := randBytes(rng, 3)
		recDecBytes(append(append([]byte{}, e...), sfx...), false, i%2 == 0)
		inv := append([]byte{}, e...)
		for k := range inv {
			inv[k] = ^inv[k]
		}
		recDecBytes(append(inv, sfx...), true, i%3 == 0)
		if len(d) <= 9 || i%16 == 0 {
			for _, c := range corruptions(rng, e, 3) {
				recDecBytes(c, false, false)
			}
			for _, c := range corruptions(rng, inv, 1) {
				recDecBytes(c, true, false)
			}
		}
	}
	// every truncation and every single-byte replacement (over the boundary alphabet) of short encodings
	for _, d := range dom {
		if len(d) > 2 && len(d) != 8 {
			continue
		}
		e := EncodeBytes(nil, d)
		for k := 0; k < len(e); k++ {
			recDecBytes(e[:k], false, false)
		}
		if len(d) <= 1 || len(d) == 8 && (d[0] == d[7]) {
			for p := 0; p < len(e); p++ {
				for _, a := range []byte{0, 1, 0x7f, 0x80, 0xfe, 0xff, 247, 248, 246, 8, 9} {
					c := append([]byte{}, e...)
					c[p] = a
					recDecBytes(c, false, false)
				}
			}
		}
	}
	// ---- byte strings: random, with order / prefix records computed from the real encodings ----
	var prev []byte
	for i := 0; i < nrand; i++ {
		d := randBytes(rng, 40)
		pre := randBytes(rng, 2)
		e := recEncBytes(pre, d)[len(pre):]
		recDecBytes(append(append([]byte{}, e...), randBytes(rng, 5)...), false, i%2 == 0)
		for _, c := range corruptions(rng, e, 2) {
			recDecBytes(c, false, false)
		}
		recDecBytes(randBytes(rng, 30), false, false)
		recDecBytes(randBytes(rng, 30), true, false)
		o := prev
		if rng.Intn(3) == 0 && len(d) > 0 { // related key: prefix / successor
			o = append([]byte{}, d[:rng.Intn(len(d)+1)]...)
			if rng.Intn(2) == 0 {
				o = append(o, 0)
			}
		}
		eo := EncodeBytes(nil, o)
		vemit(vrec{"fn": "CmpBytes", "a": ints(d), "b": ints(o), "cmp": bytes.Compare(e, eo),
			"pfx": isProperPrefix(e, eo) || isProperPrefix(eo, e), "panic": false})
		prev = d
	}
	// ---- integers ----
	bd := boundaryInts()
	for _, c := range intCodecs {
		for i, v := range bd {
			var pre []byte
			if i%4 == 0 {
				pre = randBytes(rng, 2)
			}
			e := recEncInt(c, pre, v)[len(pre):]
			recDecInt(c, append(append([]byte{}, e...), randBytes(rng, 3)...))
			if i%3 == 0 {
				for _, x := range corruptions(rng, e, 2) {
					recDecInt(c, x)
				}
			}
		}
		var pv uint64
		for i := 0; i < nrand; i++ {
			v := randU64(rng, bd)
			e := recEncInt(c, nil, v)
			recDecInt(c, append(append([]byte{}, e...), randBytes(rng, 3)...))
			recDecInt(c, randBytes(rng, 12))
			for _, x := range corruptions(rng, e, 1) {
				recDecInt(c, x)
			}
			ep := c.enc(nil, pv)
			if c.cmp != "" {
				vemit(vrec{"fn": "CmpEnc", "kind": c.cmp, "a": u64(v), "b": u64(pv), "cmp": bytes.Compare(e, ep),
					"pfx": isProperPrefix(e, ep) || isProperPrefix(ep, e), "panic": false})
			} else {
				vemit(vrec{"fn": "CmpEnc", "kind": "none", "a": u64(v), "b": u64(pv), "cmp": 0,
					"pfx": isProperPrefix(e, ep) || isProperPrefix(ep, e), "panic": false})
			}
			if rng.Intn(2) == 0 {
				pv = v
			} else {
				pv = v + uint64(rng.Intn(3)) - 1
			}
		}
	}
	// the two scalar helpers
	for _, v := range bd {
		vemit(vrec{"fn": "EncodeIntToCmpUint", "a": u64(v), "out": u64(EncodeIntToCmpUint(int64(v))), "panic": false})
		vemit(vrec{"fn": "DecodeCmpUintToInt", "a": u64(v), "out": u64(uint64(DecodeCmpUintToInt(v))), "panic": false})
	}
	t.Logf("records=%d", vcount)
}
