package apicodec

// C15 harness (catalogue part).  The command catalogue is enumerated by reflection: every CmdType whose String() is not
// "Unknown" is matched by that name to the accessor of *tikvrpc.Request returning its message.  For every command the
// request message is filled by walking its Go struct: every []byte / [][]byte field whose name says it carries a key gets a
// distinct logical key, every other bytes field a distinct non-key value, nested messages and repeated messages are
// instantiated.  EncodeRequest of codec v2 (both modes, several keyspace ids) is applied and every bytes field of the result
// is classified (unchanged / keyspace prefix + original / keyspace end / other).  The response of the matching type
// (obtained from GenRegionErrorResp) is filled with physical keys the same way and passed through DecodeResponse.
// Context attachment, region-error synthesis and batch conversion are tried for every command.
// One line per (command, field path); Keyspace.tla / KeyspaceCatalogue.tla decide.

import (
	"bufio"
	"bytes"
	"encoding/json"
	"fmt"
	"os"
	"reflect"
	"regexp"
	"strings"
	"testing"

	"github.com/pingcap/kvproto/pkg/errorpb"
	"github.com/pingcap/kvproto/pkg/keyspacepb"
	"github.com/pingcap/kvproto/pkg/kvrpcpb"
	"github.com/tikv/client-go/v2/tikvrpc"
)

type kM = map[string]interface{}

// a bytes field carries a key if its name ends in Key / Keys or is one of the lock / range field names
var keyName = regexp.MustCompile(`(Key|Keys)$|^(PrimaryLock|Primary|Secondaries|Start|End)$`)

type kField struct {
	path  string
	key   bool
	value reflect.Value // settable []byte or element of [][]byte
	orig  []byte
}

type kFiller struct {
	n       int
	fields  []kField
	phys    func([]byte) []byte // when filling responses: logical -> physical
	region  func([]byte) []byte // when filling responses: logical -> physical region key (memcomparable + prefix)
	isReq   bool
	onStack map[reflect.Type]int
}

func (f *kFiller) fill(v reflect.Value, path string, depth int) {
	if depth > 12 {
		return
	}
	switch v.Kind() {
	case reflect.Ptr:
		if v.Type().Elem().Kind() != reflect.Struct {
			return
		}
		if v.IsNil() {
			if !v.CanSet() {
				return
			}
			v.Set(reflect.New(v.Type().Elem()))
		}
		f.fill(v.Elem(), path, depth+1)
	case reflect.Struct:
		t := v.Type()
		if f.onStack == nil {
			f.onStack = map[reflect.Type]int{}
		}
		if f.onStack[t] >= 1 { // a message nested in itself (shared lock infos): one level is enough
			return
		}
		f.onStack[t]++
		defer func() { f.onStack[t]-- }()
		isRegion := t.String() == "metapb.Region"
		for i := 0; i < t.NumField(); i++ {
			sf := t.Field(i)
			if sf.PkgPath != "" || strings.HasPrefix(sf.Name, "XXX_") {
				continue
			}
			// the Error member of a KvPair is a response-side field: clients never set it in requests
			if f.isReq && (sf.Name == "Error" || sf.Name == "Errors") {
				continue
			}
			fv := v.Field(i)
			p := path + "." + sf.Name
			isKey := keyName.MatchString(sf.Name)
			phys := f.phys
			if isRegion && f.region != nil {
				phys = f.region // region descriptions carry region keys
			}
			switch {
			case fv.Kind() == reflect.Slice && fv.Type().Elem().Kind() == reflect.Uint8: // []byte
				f.n++
				var b []byte
				if isKey {
					b = []byte(fmt.Sprintf("lk%03d", f.n))
				} else {
					b = []byte(fmt.Sprintf("nk%03d", f.n))
				}
				orig := b
				if isKey && phys != nil {
					b = phys(b)
				}
				fv.SetBytes(b)
				f.fields = append(f.fields, kField{path: p, key: isKey, value: fv, orig: orig})
			case fv.Kind() == reflect.Slice && fv.Type().Elem().Kind() == reflect.Slice && fv.Type().Elem().Elem().Kind() == reflect.Uint8: // [][]byte
				s := reflect.MakeSlice(fv.Type(), 2, 2)
				fv.Set(s)
				for j := 0; j < 2; j++ {
					f.n++
					var b []byte
					if isKey {
						b = []byte(fmt.Sprintf("lk%03d", f.n))
					} else {
						b = []byte(fmt.Sprintf("nk%03d", f.n))
					}
					orig := b
					if isKey && phys != nil {
						b = phys(b)
					}
					s.Index(j).SetBytes(b)
					f.fields = append(f.fields, kField{path: fmt.Sprintf("%s[%d]", p, j), key: isKey, value: s.Index(j), orig: orig})
				}
			case fv.Kind() == reflect.Ptr:
				if sf.Name == "Context" || sf.Name == "RegionError" {
					continue
				}
				f.fill(fv, p, depth+1)
			case fv.Kind() == reflect.Slice && fv.Type().Elem().Kind() == reflect.Ptr && fv.Type().Elem().Elem().Kind() == reflect.Struct:
				s := reflect.MakeSlice(fv.Type(), 2, 2)
				fv.Set(s)
				for j := 0; j < 2; j++ {
					f.fill(s.Index(j), fmt.Sprintf("%s[%d]", p, j), depth+1)
				}
			case fv.Kind() == reflect.Interface: // oneof: leave unset
			}
		}
	}
}

// the same walk over the output, returning path -> bytes
func kCollect(v reflect.Value, path string, out map[string][]byte, depth int) {
	if depth > 14 || !v.IsValid() {
		return
	}
	switch v.Kind() {
	case reflect.Ptr, reflect.Interface:
		if !v.IsNil() {
			kCollect(v.Elem(), path, out, depth+1)
		}
	case reflect.Struct:
		t := v.Type()
		for i := 0; i < t.NumField(); i++ {
			sf := t.Field(i)
			if sf.PkgPath != "" || strings.HasPrefix(sf.Name, "XXX_") || sf.Name == "Context" || sf.Name == "RegionError" {
				continue
			}
			fv := v.Field(i)
			p := path + "." + sf.Name
			switch {
			case fv.Kind() == reflect.Slice && fv.Type().Elem().Kind() == reflect.Uint8:
				out[p] = fv.Bytes()
			case fv.Kind() == reflect.Slice && fv.Type().Elem().Kind() == reflect.Slice && fv.Type().Elem().Elem().Kind() == reflect.Uint8:
				for j := 0; j < fv.Len(); j++ {
					out[fmt.Sprintf("%s[%d]", p, j)] = fv.Index(j).Bytes()
				}
			case fv.Kind() == reflect.Ptr:
				kCollect(fv, p, out, depth+1)
			case fv.Kind() == reflect.Slice && fv.Type().Elem().Kind() == reflect.Ptr:
				for j := 0; j < fv.Len(); j++ {
					kCollect(fv.Index(j), fmt.Sprintf("%s[%d]", p, j), out, depth+1)
				}
			}
		}
	}
}

func kInts(b []byte) []int {
	out := make([]int, len(b))
	for i, c := range b {
		out[i] = int(c)
	}
	return out
}

func TestVerifKeyspaceCatalogue(t *testing.T) {
	out := os.Getenv("VERIF_OUT")
	if out == "" {
		t.Skip("VERIF_OUT not set")
	}
	f, err := os.Create(out)
	if err != nil {
		t.Fatal(err)
	}
	defer f.Close()
	log := bufio.NewWriter(f)
	defer log.Flush()
	emit := func(m kM) {
		b, _ := json.Marshal(m)
		log.Write(b)
		log.WriteByte('\n')
	}
	reqType := reflect.TypeOf(&tikvrpc.Request{})
	for _, mode := range []Mode{ModeTxn, ModeRaw} {
		for _, ksid := range []uint32{0, 1, 4242, 0xFFFFFE} {
			codec, err := NewCodecV2(mode, &keyspacepb.KeyspaceMeta{Keyspace: &keyspacepb.KeyspaceMeta_Id{Id: ksid}, Name: "verif"})
			if err != nil {
				t.Fatal(err)
			}
			c2 := codec.(*codecV2)
			prefix := append([]byte{}, c2.prefix...)
			end := append([]byte{}, c2.endKey...)
			modeName := map[Mode]string{ModeTxn: "txn", ModeRaw: "raw"}[mode]
			emit(kM{"ev": "reset", "mode": modeName, "ksid": ksid})
			for i := 0; i < 4096; i++ {
				cmd := tikvrpc.CmdType(i)
				name := cmd.String()
				if name == "Unknown" || strings.HasPrefix(name, "Unknown") {
					continue
				}
				accessor := name
				if a, has := map[string]string{"CopStream": "Cop", "EstablishMPPConnection": "EstablishMPPConn", "MPPAlive": "IsMPPAlive", "MvccGetByStartTS": "MvccGetByStartTs"}[name]; has {
					accessor = a // the few accessors whose name is not the command's String()
				}
				m, ok := reqType.MethodByName(accessor)
				if !ok || m.Type.NumOut() != 1 || m.Type.Out(0).Kind() != reflect.Ptr {
					emit(kM{"ev": "cmd", "cmd": name, "accessor": false})
					continue
				}
				msg := reflect.New(m.Type.Out(0).Elem())
				fl := &kFiller{isReq: true}
				fl.fill(msg, name, 0)
				req := tikvrpc.NewRequest(cmd, msg.Interface())
				// catalogue clauses
				attachOK := tikvrpc.AttachContext(req, kvrpcpb.Context{RegionId: 7}) == true
				rerr := &errorpb.Error{Message: "verif"}
				resp, gerr := tikvrpc.GenRegionErrorResp(req, rerr)
				regionErrOK := false
				if gerr == nil && resp != nil {
					if got, e2 := resp.GetRegionError(); e2 == nil && got == rerr {
						regionErrOK = true
					}
				}
				batchOK, batchApplies := true, false
				if breq := req.ToBatchCommandsRequest(); breq != nil {
					batchApplies = true
					batchOK = breq.Cmd != nil
				}
				_, hasCtx := m.Type.Out(0).Elem().FieldByName("Context")
				hasRegionErr := false
				if resp != nil && resp.Resp != nil {
					_, hasRegionErr = reflect.TypeOf(resp.Resp).Elem().FieldByName("RegionError")
				}
				emit(kM{"ev": "cmd", "cmd": name, "accessor": true, "attach": attachOK, "regionerr": regionErrOK, "batch": batchOK, "batch_applies": batchApplies,
					"keyfields": len(fl.fields), "has_context": hasCtx, "has_regionerr": hasRegionErr, "resp_generated": resp != nil && resp.Resp != nil})
				// ---- request encoding
				enc, eerr := codec.EncodeRequest(req)
				if eerr != nil {
					emit(kM{"ev": "encode_error", "cmd": name, "err": eerr.Error()})
					continue
				}
				got := map[string][]byte{}
				kCollect(reflect.ValueOf(enc.Req), name, got, 0)
				for _, fd := range fl.fields {
					g, present := got[fd.path]
					class := "other"
					switch {
					case !present:
						class = "missing"
					case bytes.Equal(g, fd.orig):
						class = "unchanged"
					case bytes.Equal(g, append(append([]byte{}, prefix...), fd.orig...)):
						class = "prefixed"
					case bytes.Equal(g, end):
						class = "keyspace_end"
					}
					emit(kM{"ev": "reqfield", "cmd": name, "path": fd.path, "key": fd.key, "class": class, "in": kInts(fd.orig), "out": kInts(g), "mode": modeName, "id": kInts(prefix[1:])})
				}
				// ---- response decoding: fill the response of the matching type with physical keys
				if resp == nil || resp.Resp == nil {
					continue
				}
				rv := reflect.ValueOf(resp.Resp)
				rmsg := reflect.New(rv.Type().Elem())
				rf := &kFiller{phys: func(b []byte) []byte { return append(append([]byte{}, prefix...), b...) },
					region: func(b []byte) []byte { return c2.EncodeRegionKey(b) }}
				rf.fill(rmsg, name+"Resp", 0)
				dec, derr := codec.DecodeResponse(req, &tikvrpc.Response{Resp: rmsg.Interface()})
				if derr != nil {
					emit(kM{"ev": "decode_error", "cmd": name, "err": fmt.Sprintf("%.120s", derr.Error())})
					continue
				}
				dgot := map[string][]byte{}
				kCollect(reflect.ValueOf(dec.Resp), name+"Resp", dgot, 0)
				for _, fd := range rf.fields {
					g, present := dgot[fd.path]
					class := "other"
					phys := append(append([]byte{}, prefix...), fd.orig...)
					switch {
					case !present:
						class = "missing"
					case fd.key && bytes.Equal(g, fd.orig):
						class = "stripped"
					case fd.key && bytes.Equal(g, phys):
						class = "still_prefixed"
					case !fd.key && bytes.Equal(g, fd.orig):
						class = "unchanged"
					}
					emit(kM{"ev": "respfield", "cmd": name, "path": fd.path, "key": fd.key, "class": class, "logical": kInts(fd.orig), "out": kInts(g), "mode": modeName, "id": kInts(prefix[1:]),
						"region": strings.Contains(fd.path, "Region") && !strings.Contains(fd.path, "RegionError")})
				}
			}
		}
	}
}
