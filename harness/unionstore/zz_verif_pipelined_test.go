package unionstore

// C16 harness (buffer level).  Seeded programs of set / delete / get / get-local / batch-get / flush (forced or
// threshold-driven) / flush-wait / staging over the real PipelinedMemDB.  The flush function is scripted: it records the
// generation and the exact content it is handed, then blocks until the program lets it finish with success or failure
// (so a flush can complete before, between or after the following writes); a success applies the content to the
// harness's store tier, which also backs the buffer-batch-getter.  Trace_Pipelined.tla decides.

import (
	"bufio"
	"context"
	"encoding/json"
	"errors"
	"math/rand"
	"os"
	"strconv"
	"sync"
	"testing"
	"time"

	tikverr "github.com/tikv/client-go/v2/error"
	"github.com/tikv/client-go/v2/kv"
)

type pM = map[string]interface{}

const pKeys = 4

type pWorld struct {
	mu      sync.Mutex
	log     *bufio.Writer
	store   map[int][]byte // flushed values (empty slice = deletion)
	release chan bool
	running bool
	done    chan struct{}
	logged  chan struct{} // closed by the program once the Flush call that started this flush has been logged
	called  chan struct{} // closed by the flush function once it has logged its invocation
}

func (w *pWorld) emit(m pM) {
	b, _ := json.Marshal(m)
	w.log.Write(b)
	w.log.WriteByte('\n')
}

func pKey(i int) []byte { return []byte{'p', byte('0' + i)} }
func pIdx(k []byte) int { return int(k[1] - '0') }
func pVal(v []byte) int {
	if len(v) == 0 {
		return 0
	}
	return int(v[0])
}

func pScenario(log *bufio.Writer, seed int64, scn int, nops int) {
	rnd := rand.New(rand.NewSource(seed*15485863 + int64(scn)))
	w := &pWorld{log: log, store: map[int][]byte{}, release: make(chan bool, 1)}
	flush := func(gen uint64, db *MemDB) error {
		content := make([]int, pKeys)
		for i := range content {
			content[i] = -1
		}
		vals := map[int][]byte{}
		for it := db.IterWithFlags(nil, nil); it.Valid(); it.Next() {
			if !it.HasValue() {
				continue
			}
			k := pIdx(it.Key())
			content[k-1] = pVal(it.Value())
			vals[k] = append([]byte{}, it.Value()...)
		}
		<-w.logged
		w.mu.Lock()
		w.emit(pM{"ev": "flushcall", "gen": gen, "content": content})
		w.mu.Unlock()
		close(w.called)
		ok := <-w.release
		w.mu.Lock()
		if ok {
			for k, v := range vals {
				w.store[k] = v
			}
		}
		w.emit(pM{"ev": "flushdone", "gen": gen, "ok": ok})
		w.running = false
		w.mu.Unlock()
		close(w.done)
		if !ok {
			return errors.New("verif: flush failed")
		}
		return nil
	}
	getter := func(ctx context.Context, keys [][]byte) (map[string]kv.ValueEntry, error) {
		w.mu.Lock()
		defer w.mu.Unlock()
		out := map[string]kv.ValueEntry{}
		for _, k := range keys {
			if v, ok := w.store[pIdx(k)]; ok {
				out[string(k)] = kv.NewValueEntry(append([]byte{}, v...), 0)
			}
		}
		return out, nil
	}
	p := NewPipelinedMemDB(getter, flush)
	minKeys := []int{1000, 1, 2, 3}[rnd.Intn(4)]
	p.flushOption = flushOption{MinFlushKeys: uint64(minKeys), MinFlushMemSize: 0, ForceFlushMemSizeThreshold: 1 << 40}
	w.mu.Lock()
	w.emit(pM{"ev": "reset", "scn": scn, "seed": seed, "minkeys": minKeys})
	w.mu.Unlock()
	ctx := context.Background()
	staging := []int{}
	// lets the flush in flight finish (if it has not been released yet) and waits until it has
	finish := func(ok bool) {
		w.mu.Lock()
		running, done := w.running, w.done
		w.mu.Unlock()
		if !running {
			return
		}
		select {
		case w.release <- ok:
		default:
		}
		<-done
	}
	class := func(err error) string {
		switch {
		case err == nil:
			return "ok"
		case tikverr.IsErrNotFound(err):
			return "notexist"
		default:
			return "err"
		}
	}
	emitOp := func(m pM) {
		w.mu.Lock()
		m["ev"] = "op"
		w.emit(m)
		w.mu.Unlock()
	}
	for i := 0; i < nops; i++ {
		switch x := rnd.Intn(20); {
		case x < 5:
			k, v := 1+rnd.Intn(pKeys), 1+rnd.Intn(3)
			err := p.Set(pKey(k), []byte{byte(v)})
			emitOp(pM{"op": "Set", "k": k, "v": v, "res": class(err), "out": 0})
		case x < 7:
			k := 1 + rnd.Intn(pKeys)
			err := p.Delete(pKey(k))
			emitOp(pM{"op": "Delete", "k": k, "res": class(err), "out": 0})
		case x < 10:
			k := 1 + rnd.Intn(pKeys)
			v, err := p.Get(ctx, pKey(k))
			emitOp(pM{"op": "Get", "k": k, "res": class(err), "out": pVal(v.Value)})
		case x < 11:
			k := 1 + rnd.Intn(pKeys)
			v, err := p.GetLocal(ctx, pKey(k))
			emitOp(pM{"op": "GetLocal", "k": k, "res": class(err), "out": pVal(v)})
		case x < 14:
			n := 1 + rnd.Intn(pKeys)
			var ks [][]byte
			var is []int
			for j := 0; j < n; j++ {
				k := 1 + rnd.Intn(pKeys)
				is, ks = append(is, k), append(ks, pKey(k))
			}
			m, err := p.BatchGet(ctx, ks)
			out := make([]int, pKeys)
			for j := range out {
				out[j] = -1
			}
			for k, v := range m {
				out[pIdx([]byte(k))-1] = pVal(v.Value)
			}
			emitOp(pM{"op": "BatchGet", "ks": is, "res": class(err), "out": out})
		case x < 17:
			force := rnd.Intn(3) > 0
			// Flush blocks on the flush in flight when it will start a new one: let that one finish first
			if p.flushingMemDB != nil && (force || (p.memDB.Len() >= minKeys && !p.OnFlushing())) && len(staging) == 0 {
				finish(rnd.Intn(6) > 0)
			}
			w.mu.Lock()
			w.done, w.logged, w.called = make(chan struct{}), make(chan struct{}), make(chan struct{})
			logged, called := w.logged, w.called
			w.mu.Unlock()
			flushed, err := p.Flush(force)
			res := "noflush"
			switch {
			case err != nil && len(staging) > 0:
				res = "staging"
			case err != nil:
				res = "err"
			case flushed:
				res = "flushed"
				w.mu.Lock()
				w.running = true
				w.mu.Unlock()
			}
			emitOp(pM{"op": "Flush", "force": force, "res": res, "out": int(p.generation)})
			if flushed {
				// the call is logged: now the flush function may announce itself; wait for it, so that the order of events is fixed
				close(logged)
				<-called
			}
		case x < 18:
			if p.flushingMemDB != nil {
				finish(rnd.Intn(6) > 0)
			}
			err := p.FlushWait()
			emitOp(pM{"op": "FlushWait", "res": class(err), "out": 0})
		case x < 19:
			// the flush in flight completes now, between two calls of the program
			w.mu.Lock()
			running := w.running
			w.mu.Unlock()
			if running {
				finish(rnd.Intn(6) > 0)
			}
		default:
			if len(staging) > 0 && rnd.Intn(2) == 0 {
				h := staging[len(staging)-1]
				staging = staging[:len(staging)-1]
				if rnd.Intn(2) == 0 {
					p.Release(h)
					emitOp(pM{"op": "Release", "res": "ok", "out": 0})
				} else {
					p.Cleanup(h)
					emitOp(pM{"op": "Cleanup", "res": "ok", "out": 0})
				}
			} else if len(staging) < 2 {
				staging = append(staging, p.Staging())
				emitOp(pM{"op": "Staging", "res": "ok", "out": 0})
			}
		}
	}
	finish(true)
	_ = p.FlushWait()
}

func TestVerifPipelined(t *testing.T) {
	out := os.Getenv("VERIF_OUT")
	if out == "" {
		t.Skip("VERIF_OUT not set")
	}
	seed, _ := strconv.ParseInt(os.Getenv("VERIF_SEED"), 10, 64)
	n, _ := strconv.Atoi(os.Getenv("VERIF_N"))
	if n == 0 {
		n = 100
	}
	f, err := os.Create(out)
	if err != nil {
		t.Fatal(err)
	}
	defer f.Close()
	log := bufio.NewWriterSize(f, 1<<20)
	defer log.Flush()
	for s := 0; s < n; s++ {
		done := make(chan struct{})
		go func() { defer close(done); pScenario(log, seed, s, 40) }()
		select {
		case <-done:
		case <-time.After(30 * time.Second):
			// a call on the buffer (or the flush hand-shake it implies) never came back: record it and stop
			log.WriteString("{\"ev\":\"hang\",\"scn\":" + strconv.Itoa(s) + "}\n")
			log.Flush()
			return
		}
	}
}
