package unionstore

// C08 / C07 harness: the same seeded operation stream is applied to the radix-tree buffer (art) and the
// red-black-tree buffer (rbt); after every call the result and an API-level projection are logged.
// In "union" mode a KVUnionStore over the art buffer and a scripted snapshot is driven as well.
// Trace_MemBuffer.tla decides; this file only drives and records.

import (
	"bufio"
	"bytes"
	"context"
	"encoding/json"
	"fmt"
	"math/rand"
	"os"
	"sort"
	"strconv"
	"strings"
	"testing"

	tikverr "github.com/tikv/client-go/v2/error"
	"github.com/tikv/client-go/v2/internal/unionstore/arena"
	"github.com/tikv/client-go/v2/kv"
)

type vM = map[string]interface{}

type vIter interface {
	Iterator
	Handle() arena.MemKeyHandle
	Flags() kv.KeyFlags
	HasValue() bool
}

// vBuf is the common surface of artDBWithContext and rbtDBWithContext used by the driver.
type vBuf interface {
	MemBuffer
	SelectValueHistory(key []byte, predicate func(value []byte) bool) ([]byte, error)
	GetKeyByHandle(handle arena.MemKeyHandle) []byte
	GetValueByHandle(handle arena.MemKeyHandle) ([]byte, bool)
}

type vArt struct{ *artDBWithContext }
type vRbt struct{ *rbtDBWithContext }

func (a vArt) iterFlags() vIter { return a.ART.IterWithFlags(nil, nil) }
func (r vRbt) iterFlags() vIter { return r.RBT.IterWithFlags(nil, nil) }

var vFlagNames = []struct {
	bit  int
	name string
}{{0, "PresumeKNE"}, {1, "KeyLocked"}, {2, "NeedLocked"}, {3, "KeyLockedValExist"}, {4, "NeedCheckExists"}, {5, "PrewriteOnly"},
	{6, "IgnoredIn2PC"}, {7, "Readable"}, {8, "NewlyInserted"}, {9, "AssertExist"}, {10, "AssertNotExist"},
	{11, "NeedConstraintCheckInPrewrite"}, {12, "PreviousPresumeKNE"}, {13, "KeyLockedInShareMode"}}

func vFlags(f kv.KeyFlags) []string {
	out := []string{}
	for _, fn := range vFlagNames {
		if uint16(f)&(1<<uint(fn.bit)) != 0 {
			out = append(out, fn.name)
		}
	}
	return out
}

var vOps = map[string]kv.FlagsOp{
	"SetPresumeKeyNotExists": kv.SetPresumeKeyNotExists, "DelPresumeKeyNotExists": kv.DelPresumeKeyNotExists, "SetKeyLocked": kv.SetKeyLocked,
	"DelKeyLocked": kv.DelKeyLocked, "SetNeedLocked": kv.SetNeedLocked, "DelNeedLocked": kv.DelNeedLocked,
	"SetKeyLockedValueExists": kv.SetKeyLockedValueExists, "SetKeyLockedValueNotExists": kv.SetKeyLockedValueNotExists,
	"DelNeedCheckExists": kv.DelNeedCheckExists, "SetPrewriteOnly": kv.SetPrewriteOnly, "SetIgnoredIn2PC": kv.SetIgnoredIn2PC,
	"SetReadable": kv.SetReadable, "SetNewlyInserted": kv.SetNewlyInserted, "SetAssertExist": kv.SetAssertExist,
	"SetAssertNotExist": kv.SetAssertNotExist, "SetAssertUnknown": kv.SetAssertUnknown, "SetAssertNone": kv.SetAssertNone,
	"SetNeedConstraintCheckInPrewrite": kv.SetNeedConstraintCheckInPrewrite, "DelNeedConstraintCheckInPrewrite": kv.DelNeedConstraintCheckInPrewrite,
	"SetPreviousPresumeKNE": kv.SetPreviousPresumeKNE, "SetKeyLockedInShareMode": kv.SetKeyLockedInShareMode,
	"SetKeyLockedInExclusiveMode": kv.SetKeyLockedInExclusiveMode,
}
var vOpNames []string

func init() {
	for n := range vOps {
		vOpNames = append(vOpNames, n)
	}
	sort.Strings(vOpNames)
}

func vVal(v []byte, exists bool) vM {
	if !exists {
		return vM{"n": -1, "b": 0}
	}
	if len(v) == 0 {
		return vM{"n": 0, "b": 0}
	}
	for _, c := range v {
		if c != v[0] {
			panic("harness values are constant-filled")
		}
	}
	return vM{"n": len(v), "b": int(v[0])}
}
func vMk(n, b int) []byte {
	if n == 0 {
		return []byte{}
	}
	return bytes.Repeat([]byte{byte(b)}, n)
}

// key universes (sorted ascending; id = position)
// vBoundOnly: keys of the universe that are only ever used as iteration bounds (never written), so that seeks for
// absent keys that leave a compressed prefix deep inside it are exercised
var vBoundOnly map[string]bool

func vUniverse(rng *rand.Rand) [][]byte {
	vBoundOnly = map[string]bool{}
	long := strings.Repeat("p", 23) // longer than the in-node prefix (20)
	var ks []string
	switch rng.Intn(7) {
	case 5, 6: // a compressed prefix longer than the in-node prefix with non-uniform bytes, a growing fan-out below it,
		// and keys / bounds that leave the prefix at an index beyond the in-node part
		pre := "abcdefghijklmnopqrstuvwxy"[:22+rng.Intn(4)]
		nch := []int{6, 18, 18, 52}[rng.Intn(4)]
		for i := 0; i < nch; i++ {
			ks = append(ks, pre+string([]byte{byte(2 + i*4)}))
		}
		ks = append(ks, pre, pre+"\x0ax", pre+"\x0ay", pre[:21]+"\x01", pre[:21]+"\xfe", pre[:20]+"\x00", pre[:20]+"\xff", pre[:len(pre)-1]+"\x00", "a", "b")
		for _, b := range []string{pre[:21] + "\x01", pre[:21] + "\xfe", pre[:20] + "\x00", pre[:20] + "\xff", pre[:len(pre)-1] + "\x00"} {
			if rng.Intn(4) != 0 { // mostly bounds only: written, they would split the long compressed prefix
				vBoundOnly[b] = true
			}
		}
		// keys (used as bounds, never written) that leave the prefix beyond the in-node part with a byte next to the prefix's own
		for d := 20; d < len(pre); d++ {
			ks = append(ks, pre[:d]+string([]byte{pre[d] - 1}), pre[:d]+string([]byte{pre[d] + 1}))
			vBoundOnly[pre[:d]+string([]byte{pre[d] - 1})], vBoundOnly[pre[:d]+string([]byte{pre[d] + 1})] = true, true
		}
	case 0: // prefix chains, empty key, 0x00 / 0xff
		ks = []string{"", "\x00", "a", "a\x00", "a\x00\x00", "a\xff", "ab", "b", "\xff", "\xff\xff"}
	case 1: // shared prefixes longer than the in-node prefix, keys that are prefixes of others
		ks = []string{long, long + "1", long + "1\x00", long + "2", long + long + "a", long + long + "b", long + long, long[:20], long[:21], "q"}
	case 2: // fan-out across 4 / 16 / 48 node sizes below a common prefix, plus neighbours
		ks = []string{"f", "g"}
		for i := 0; i < 52; i++ {
			ks = append(ks, "f"+string([]byte{byte(3 + i*4)}))
		}
		ks = append(ks, "f\x07x", "f\x07y")
	case 3: // fan-out at the root across 48 -> 256
		for i := 0; i < 60; i++ {
			ks = append(ks, string([]byte{byte(i * 4)}))
		}
		ks = append(ks, "\x04\x00", "\x04\x01")
	default: // random short keys over a tiny alphabet
		set := map[string]bool{}
		for len(set) < 12 {
			n := rng.Intn(4)
			b := make([]byte, n)
			for i := range b {
				b[i] = []byte{0, 1, 'a', 0xff}[rng.Intn(4)]
			}
			set[string(b)] = true
		}
		for k := range set {
			ks = append(ks, k)
		}
	}
	sort.Strings(ks)
	out := make([][]byte, len(ks))
	for i, k := range ks {
		out[i] = []byte(k)
	}
	return out
}

type vDrv struct {
	impl  string
	buf   vBuf
	iterF func() vIter
	keys  [][]byte
	snapM []vM // scripted snapshot content per key (union mode)
	snapB [][]byte
	us    *KVUnionStore
	cps   []*MemDBCheckpoint
}

type vSnap struct{ d *vDrv }

func (s vSnap) Get(_ context.Context, k []byte, _ ...kv.GetOption) (kv.ValueEntry, error) {
	for i, key := range s.d.keys {
		if bytes.Equal(key, k) && s.d.snapB[i] != nil {
			return kv.NewValueEntry(s.d.snapB[i], 0), nil
		}
	}
	return kv.ValueEntry{}, tikverr.ErrNotExist
}

type vSliceIter struct {
	ks, vs [][]byte
	i      int
}

func (it *vSliceIter) Valid() bool   { return it.i < len(it.ks) }
func (it *vSliceIter) Key() []byte   { return it.ks[it.i] }
func (it *vSliceIter) Value() []byte { return it.vs[it.i] }
func (it *vSliceIter) Next() error   { it.i++; return nil }
func (it *vSliceIter) Close()        {}

func (s vSnap) rng(lo, hi []byte, rev bool) *vSliceIter {
	it := &vSliceIter{}
	for i, k := range s.d.keys {
		if s.d.snapB[i] == nil {
			continue
		}
		if lo != nil && bytes.Compare(k, lo) < 0 {
			continue
		}
		if hi != nil && bytes.Compare(k, hi) >= 0 {
			continue
		}
		it.ks = append(it.ks, k)
		it.vs = append(it.vs, s.d.snapB[i])
	}
	if rev {
		for a, b := 0, len(it.ks)-1; a < b; a, b = a+1, b-1 {
			it.ks[a], it.ks[b] = it.ks[b], it.ks[a]
			it.vs[a], it.vs[b] = it.vs[b], it.vs[a]
		}
	}
	return it
}
func (s vSnap) Iter(k, upper []byte) (Iterator, error)        { return s.rng(k, upper, false), nil }
func (s vSnap) IterReverse(k, lower []byte) (Iterator, error) { return s.rng(lower, k, true), nil }

func (d *vDrv) keyID(k []byte) int {
	for i, key := range d.keys {
		if bytes.Equal(key, k) {
			return i + 1
		}
	}
	return -1
}
func (d *vDrv) bound(i int) []byte {
	if i == 0 {
		return nil
	}
	return d.keys[i-1]
}

func (d *vDrv) proj() vM {
	n := len(d.keys)
	vals, snap, present, flags := make([]vM, n), make([]vM, n), make([]bool, n), make([][]string, n)
	sg := d.buf.SnapshotGetter()
	for i, k := range d.keys {
		v, err := d.buf.Get(context.Background(), k)
		vals[i] = vVal(v.Value, err == nil)
		sv, err2 := sg.Get(context.Background(), k)
		snap[i] = vVal(sv.Value, err2 == nil)
		f, err3 := d.buf.GetFlags(k)
		present[i] = err3 == nil
		flags[i] = vFlags(f)
	}
	var stg bool
	switch b := d.buf.(type) {
	case vArt:
		stg = b.IsStaging()
	case vRbt:
		stg = b.IsStaging()
	}
	return vM{"vals": vals, "snap": snap, "present": present, "flags": flags, "len": d.buf.Len(), "size": d.buf.Size(), "dirty": d.buf.Dirty(), "staging": stg}
}

func (d *vDrv) pairs(it Iterator) []vM {
	out := []vM{}
	for ; it.Valid(); it.Next() {
		out = append(out, vM{"k": d.keyID(it.Key()), "v": vVal(it.Value(), true)})
	}
	it.Close()
	return out
}

func vErrName(err error) string {
	if err == nil {
		return "ok"
	}
	if tikverr.IsErrNotFound(err) {
		return "notexist"
	}
	switch err.(type) {
	case *tikverr.ErrKeyTooLarge:
		return "keytoolarge"
	case *tikverr.ErrEntryTooLarge:
		return "entrytoolarge"
	case *tikverr.ErrTxnTooLarge:
		return "txntoolarge"
	}
	return "err:" + err.Error()
}

// exec runs one abstract operation (a JSON-able record) and returns the event to log.
func (d *vDrv) exec(o vM) (ev vM) {
	ev = vM{"ev": "op"}
	for k, v := range o {
		ev[k] = v
	}
	defer func() {
		if e := recover(); e != nil {
			ev["res"] = "panic"
			ev["out"] = 0
			ev["panicmsg"] = fmt.Sprint(e)
			ev["proj"] = vM{}
		}
	}()
	gi := func(f string) int { return o[f].(int) }
	for _, f := range []string{"lo", "hi"} {
		if b, ok := o[f].(int); ok && b > 0 && len(d.keys[b-1]) == 0 {
			o[f] = 0
			ev[f] = 0
		}
	}
	ctx := context.Background()
	res, out := "ok", interface{}(0)
	switch o["op"].(string) {
	case "Write":
		v := o["v"].(vM)
		var ops []kv.FlagsOp
		for _, n := range o["ops"].([]string) {
			ops = append(ops, vOps[n])
		}
		k := d.keys[gi("k")-1]
		var err error
		switch {
		case v["n"].(int) < 0:
			d.buf.UpdateFlags(k, ops...)
		case v["n"].(int) == 0:
			err = d.buf.DeleteWithFlags(k, ops...)
		default:
			err = d.buf.SetWithFlags(k, vMk(v["n"].(int), v["b"].(int)), ops...)
		}
		res, out = vErrName(err), []int{}
	case "Staging":
		out = d.buf.Staging()
	case "Release":
		d.buf.Release(gi("h"))
	case "Cleanup":
		d.buf.Cleanup(gi("h"))
	case "Checkpoint":
		d.cps = append(d.cps[:gi("idx")-1], d.buf.Checkpoint())
		out = len(d.cps)
	case "RevertToCheckpoint":
		d.buf.RevertToCheckpoint(d.cps[gi("cp")-1])
	case "SetLimits":
		e, b := uint64(gi("entry")), uint64(gi("buffer"))
		if gi("entry") < 0 {
			e = unlimitedSize
		}
		if gi("buffer") < 0 {
			b = unlimitedSize
		}
		d.buf.SetEntrySizeLimit(e, b)
	case "Get":
		v, err := d.buf.Get(ctx, d.keys[gi("k")-1])
		res, out = vErrName(err), vVal(v.Value, err == nil)
	case "BatchGet":
		var ks [][]byte
		for _, k := range o["ks"].([]int) {
			ks = append(ks, d.keys[k-1])
		}
		m, err := d.buf.BatchGet(ctx, ks)
		res = vErrName(err)
		l := []vM{}
		for _, k := range o["ks"].([]int) {
			if v, ok := m[string(d.keys[k-1])]; ok {
				l = append(l, vM{"k": k, "v": vVal(v.Value, true)})
			}
		}
		out = l
	case "Iter":
		it, err := d.buf.Iter(d.bound(gi("lo")), d.bound(gi("hi")))
		if err != nil {
			res = vErrName(err)
		} else {
			out = d.pairs(it)
		}
	case "IterReverse":
		it, err := d.buf.IterReverse(d.bound(gi("hi")), d.bound(gi("lo")))
		if err != nil {
			res = vErrName(err)
		} else {
			out = d.pairs(it)
		}
	case "SnapIter":
		out = d.pairs(d.buf.SnapshotIter(d.bound(gi("lo")), d.bound(gi("hi"))))
	case "SnapIterReverse":
		out = d.pairs(d.buf.SnapshotIterReverse(d.bound(gi("hi")), d.bound(gi("lo"))))
	case "InspectStage":
		l := []vM{}
		d.buf.InspectStage(gi("h"), func(k []byte, f kv.KeyFlags, v []byte) {
			l = append(l, vM{"k": d.keyID(k), "v": vVal(v, true), "flags": vFlags(f)})
		})
		out = l
	case "SelectValueHistory":
		n := gi("n")
		v, err := d.buf.SelectValueHistory(d.keys[gi("k")-1], func(val []byte) bool { return len(val) == n })
		res = vErrName(err)
		out = vVal(v, err == nil && v != nil)
	case "Handles":
		l := []vM{}
		it := d.iterF()
		for ; it.Valid(); it.Next() {
			h := it.Handle()
			kb := d.buf.GetKeyByHandle(h)
			vb, ok := d.buf.GetValueByHandle(h)
			if !bytes.Equal(kb, it.Key()) {
				panic("GetKeyByHandle returned a different key than the iterator")
			}
			if ok != it.HasValue() {
				panic("GetValueByHandle and HasValue disagree")
			}
			l = append(l, vM{"k": d.keyID(kb), "v": vVal(vb, ok), "flags": vFlags(it.Flags())})
		}
		out = l
	case "UGet":
		v, err := d.us.Get(ctx, d.keys[gi("k")-1])
		res, out = vErrName(err), vVal(v.Value, err == nil)
	case "UIter":
		it, err := d.us.Iter(d.bound(gi("lo")), d.bound(gi("hi")))
		if err != nil {
			res = vErrName(err)
		} else {
			out = d.pairs(it)
		}
	case "UIterReverse":
		it, err := d.us.IterReverse(d.bound(gi("hi")), d.bound(gi("lo")))
		if err != nil {
			res = vErrName(err)
		} else {
			out = d.pairs(it)
		}
	case "IterInvalidation":
		// an iterator used after a write must fail loudly (checked for the radix tree, which carries a write sequence number)
		it, _ := d.buf.Iter(nil, nil)
		k := d.keys[gi("k")-1]
		werr := vErrName(d.buf.Set(k, []byte{1}))
		res = "nopanic"
		if werr == "keytoolarge" || werr == "entrytoolarge" {
			res = "skipped" // nothing was written, the iterator stays valid
		} else {
		func() {
			defer func() {
				if recover() != nil {
					res = "panic"
				}
			}()
			_ = it.Valid()
			if it.Valid() {
				_ = it.Next()
			}
		}()
		}
		ev["v"] = vM{"n": 1, "b": 1}
		// the write itself is a normal Set: log it as such for the model through the projection below
	}
	ev["res"] = res
	ev["out"] = out
	ev["proj"] = d.proj()
	return ev
}

// ------------------------------------------------------------------------------------------------
type vGen struct {
	bonly   []int // ids of bound-only keys
	rng     *rand.Rand
	n       int
	nst     int
	cpsFrom []int // number of checkpoints valid at each staging depth
	ncps    int
	union   bool
	hot     []int
}

func (g *vGen) isBoundOnly(k int) bool {
	for _, b := range g.bonly {
		if b == k {
			return true
		}
	}
	return false
}
func (g *vGen) key() int {
	for {
		k := 1 + g.rng.Intn(g.n)
		if len(g.hot) > 0 && g.rng.Intn(4) != 0 {
			k = g.hot[g.rng.Intn(len(g.hot))]
		}
		if !g.isBoundOnly(k) {
			return k
		}
	}
}
func (g *vGen) bounds() (int, int) {
	lo, hi := 0, 0
	if g.rng.Intn(3) != 0 {
		lo = 1 + g.rng.Intn(g.n)
	}
	if g.rng.Intn(3) != 0 {
		hi = 1 + g.rng.Intn(g.n)
	}
	if len(g.bonly) > 0 && g.rng.Intn(2) == 0 {
		if g.rng.Intn(2) == 0 {
			lo = g.bonly[g.rng.Intn(len(g.bonly))]
		} else {
			hi = g.bonly[g.rng.Intn(len(g.bonly))]
		}
	}
	if lo != 0 && hi != 0 && lo > hi {
		lo, hi = hi, lo
	}
	return lo, hi
}
func (g *vGen) val() vM {
	n := []int{0, 1, 1, 2, 2, 3, 7, 8, 4070, 4096, 9000}[g.rng.Intn(11)]
	if g.rng.Intn(3) == 0 {
		n = 1 + g.rng.Intn(3)
	}
	b := 0
	if n > 0 {
		b = 1 + g.rng.Intn(200)
	}
	return vM{"n": n, "b": b}
}
func (g *vGen) ops() []string {
	out := []string{}
	for g.rng.Intn(3) == 0 {
		out = append(out, vOpNames[g.rng.Intn(len(vOpNames))])
	}
	return out
}

func (g *vGen) next() vM {
	r := g.rng.Intn(100)
	switch {
	case r < 38:
		v := g.val()
		ops := g.ops()
		if g.rng.Intn(8) == 0 {
			v = vM{"n": -1, "b": 0} // UpdateFlags
			if len(ops) == 0 {
				ops = []string{vOpNames[g.rng.Intn(len(vOpNames))]}
			}
		}
		return vM{"op": "Write", "k": g.key(), "v": v, "ops": ops}
	case r < 46:
		if g.nst < 3 {
			g.nst++
			g.cpsFrom = append(g.cpsFrom, g.ncps)
			return vM{"op": "Staging"}
		}
	case r < 51:
		if g.nst > 0 {
			g.nst--
			g.ncps = g.cpsFrom[len(g.cpsFrom)-1]
			g.cpsFrom = g.cpsFrom[:len(g.cpsFrom)-1]
			return vM{"op": "Cleanup", "h": g.nst + 1}
		}
		return vM{"op": "Cleanup", "h": []int{0, 1, 2}[g.rng.Intn(3)]} // no-ops
	case r < 55:
		if g.nst > 0 {
			g.nst--
			g.ncps = g.cpsFrom[len(g.cpsFrom)-1]
			g.cpsFrom = g.cpsFrom[:len(g.cpsFrom)-1]
			return vM{"op": "Release", "h": g.nst + 1}
		}
		return vM{"op": "Release", "h": 0}
	case r < 58:
		g.ncps++
		return vM{"op": "Checkpoint", "idx": g.ncps}
	case r < 61:
		base := 0
		if len(g.cpsFrom) > 0 {
			base = g.cpsFrom[len(g.cpsFrom)-1]
		}
		if g.ncps > base {
			cp := base + 1 + g.rng.Intn(g.ncps-base)
			g.ncps = cp
			return vM{"op": "RevertToCheckpoint", "cp": cp}
		}
	case r < 63:
		return vM{"op": "SetLimits", "entry": []int{-1, 12, 5000}[g.rng.Intn(3)], "buffer": []int{-1, 40, 20000}[g.rng.Intn(3)]}
	case r < 65:
		return vM{"op": "Get", "k": g.key()}
	case r < 67:
		n := 1 + g.rng.Intn(4)
		ks := []int{}
		seen := map[int]bool{}
		for len(ks) < n {
			k := 1 + g.rng.Intn(g.n)
			if !seen[k] {
				seen[k] = true
				ks = append(ks, k)
			}
		}
		return vM{"op": "BatchGet", "ks": ks}
	case r < 73:
		lo, hi := g.bounds()
		return vM{"op": []string{"Iter", "IterReverse"}[g.rng.Intn(2)], "lo": lo, "hi": hi}
	case r < 78:
		lo, hi := g.bounds()
		return vM{"op": []string{"SnapIter", "SnapIterReverse"}[g.rng.Intn(2)], "lo": lo, "hi": hi}
	case r < 82:
		if g.nst > 0 {
			return vM{"op": "InspectStage", "h": 1 + g.rng.Intn(g.nst)}
		}
	case r < 85:
		return vM{"op": "SelectValueHistory", "k": g.key(), "n": []int{0, 1, 2, 3}[g.rng.Intn(4)]}
	case r < 87:
		return vM{"op": "Handles"}
	case r < 99:
		if g.union {
			lo, hi := g.bounds()
			switch g.rng.Intn(3) {
			case 0:
				return vM{"op": "UGet", "k": g.key()}
			case 1:
				return vM{"op": "UIter", "lo": lo, "hi": hi}
			default:
				return vM{"op": "UIterReverse", "lo": lo, "hi": hi}
			}
		}
	}
	return vM{"op": "Get", "k": g.key()}
}

func TestVerifMemBuffer(t *testing.T) {
	outp := os.Getenv("VERIF_OUT")
	if outp == "" {
		t.Skip("VERIF_OUT not set")
	}
	seed, _ := strconv.ParseInt(os.Getenv("VERIF_SEED"), 10, 64)
	nscen, _ := strconv.Atoi(os.Getenv("VERIF_N"))
	if nscen == 0 {
		nscen = 100
	}
	union := os.Getenv("VERIF_MODE") == "union"
	f, _ := os.Create(outp)
	defer f.Close()
	w := bufio.NewWriterSize(f, 1<<20)
	defer w.Flush()
	emit := func(m vM) {
		b, err := json.Marshal(m)
		if err != nil {
			t.Fatal(err)
		}
		w.Write(b)
		w.WriteByte('\n')
	}
	rng := rand.New(rand.NewSource(seed))
	for sc := 0; sc < nscen; sc++ {
		keys := vUniverse(rng)
		g := &vGen{rng: rng, n: len(keys), union: union}
		for i, k := range keys {
			if vBoundOnly[string(k)] {
				g.bonly = append(g.bonly, i+1)
			}
		}
		for i := 0; i < 3+rng.Intn(4); i++ {
			if h := 1 + rng.Intn(len(keys)); !g.isBoundOnly(h) {
				g.hot = append(g.hot, h)
			}
		}
		nops := 20 + rng.Intn(80)
		if len(keys) > 20 {
			nops = 10 + rng.Intn(40)
		}
		var ops []vM
		if rng.Intn(3) == 0 { // a statement-style start: everything is written inside an unreleased staging level
			g.nst++
			g.cpsFrom = append(g.cpsFrom, g.ncps)
			ops = append(ops, vM{"op": "Staging"})
		}
		// fan-out universes: insert most keys first so that node growth happens, in random order
		if len(keys) > 20 {
			for _, i := range rng.Perm(len(keys)) {
				if rng.Intn(10) != 0 && !vBoundOnly[string(keys[i])] {
					ops = append(ops, vM{"op": "Write", "k": i + 1, "v": vM{"n": 1 + rng.Intn(2), "b": 1 + rng.Intn(9)}, "ops": []string{}})
				}
				if rng.Intn(25) == 0 {
					ops = append(ops, g.next())
				}
			}
		}
		for i := 0; i < nops; i++ {
			ops = append(ops, g.next())
		}
		// sweep: every bound-only key once as lower and once as upper bound, in both directions
		for _, b := range g.bonly {
			ops = append(ops, vM{"op": "Iter", "lo": b, "hi": 0}, vM{"op": "IterReverse", "lo": 0, "hi": b},
				vM{"op": []string{"Iter", "IterReverse", "SnapIter", "SnapIterReverse"}[rng.Intn(4)], "lo": 0, "hi": b},
				vM{"op": []string{"Iter", "IterReverse", "SnapIter", "SnapIterReverse"}[rng.Intn(4)], "lo": b, "hi": 0})
		}
		if !union && rng.Intn(2) == 0 {
			ops = append(ops, vM{"op": "IterInvalidation", "k": g.key(), "ops": []string{}})
		}
		klen := make([]int, len(keys))
		for i, k := range keys {
			klen[i] = len(k)
		}
		snapM := make([]vM, len(keys))
		snapB := make([][]byte, len(keys))
		for i := range keys {
			snapM[i] = vM{"n": -1, "b": 0}
			if union && rng.Intn(2) == 0 {
				n, b := 1+rng.Intn(3), 201+rng.Intn(50)
				snapM[i] = vM{"n": n, "b": b}
				snapB[i] = vMk(n, b)
			}
		}
		impls := []string{"art", "rbt"}
		if union {
			impls = []string{"art"}
		}
		for _, impl := range impls {
			d := &vDrv{impl: impl, keys: keys, snapM: snapM, snapB: snapB}
			if impl == "art" {
				a := vArt{newArtDBWithContext()}
				d.buf, d.iterF = a, a.iterFlags
			} else {
				r := vRbt{newRbtDBWithContext()}
				d.buf, d.iterF = r, r.iterFlags
			}
			d.us = NewUnionStore(d.buf, vSnap{d})
			emit(vM{"ev": "reset", "impl": impl, "scenario": sc, "nkeys": len(keys), "klen": klen, "snap": snapM})
			for _, o := range ops {
				ev := d.exec(o)
				emit(ev)
				if ev["res"] == "panic" && o["op"] != "IterInvalidation" {
					break // a panicking buffer is not driven further
				}
			}
		}
	}
}
