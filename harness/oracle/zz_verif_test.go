package oracles

// C13 harness.  Concurrent callers use the real pdOracle (GetTimestamp, GetTimestampAsync, GetLowResolutionTimestamp,
// ValidateReadTS, IsExpired/UntilExpired) over a scripted PD that issues strictly increasing timestamps and delays every
// response by a seeded random amount, so responses reach the callers out of order.  Issues, calls and returns are recorded
// in one total order (a sequence number taken under one mutex: a call event is logged before the call starts, a return
// event after it ended, an issue event at the moment PD allocates).  OracleHistory.tla decides.

import (
	"bufio"
	"context"
	"encoding/json"
	"math/rand"
	"os"
	"strconv"
	"sync"
	"testing"
	"time"

	"github.com/tikv/client-go/v2/oracle"
	pd "github.com/tikv/pd/client"
	"github.com/tikv/pd/client/clients/tso"
	"github.com/tikv/pd/client/pkg/caller"
)

type vM = map[string]interface{}

type vWorld struct {
	mu     sync.Mutex
	log    *bufio.Writer
	issued int64 // number of timestamps issued
	maxTS  uint64
	delay  int // max response delay in microseconds
	ids    int
	closed bool
}

func (w *vWorld) emit(m vM) {
	b, _ := json.Marshal(m)
	w.log.Write(b)
	w.log.WriteByte('\n')
}

// allocate the next timestamp (several logical values per physical millisecond) and log it
func (w *vWorld) issue() (int64, int64) {
	w.mu.Lock()
	defer w.mu.Unlock()
	w.issued++
	phys, logical := 100+w.issued/3, w.issued%3
	w.maxTS = oracle.ComposeTS(phys, logical)
	if !w.closed { // a straggler of the background updater after the scenario ended is not part of its history
		w.emit(vM{"ev": "issue", "ts": w.maxTS})
	}
	return phys, logical
}

type vPD struct {
	pd.Client
	w *vWorld
}

func (c *vPD) WithCallerComponent(caller.Component) pd.Client { return c }
func (c *vPD) GetTS(ctx context.Context) (int64, int64, error) {
	p, l := c.w.issue()
	if c.w.delay > 0 {
		time.Sleep(time.Duration(rand.Intn(c.w.delay)) * time.Microsecond)
	}
	return p, l, nil
}

type vFuture struct{ c *vPD }

func (f vFuture) Wait() (int64, int64, error)             { return f.c.GetTS(context.Background()) }
func (c *vPD) GetTSAsync(ctx context.Context) tso.TSFuture { return vFuture{c} }

func (w *vWorld) call(op string, args vM) int {
	w.mu.Lock()
	defer w.mu.Unlock()
	w.ids++
	ev := vM{"ev": "call", "id": w.ids, "op": op}
	for k, v := range args {
		ev[k] = v
	}
	w.emit(ev)
	return w.ids
}

func (w *vWorld) ret(id int, op string, res vM) {
	w.mu.Lock()
	defer w.mu.Unlock()
	ev := vM{"ev": "ret", "id": id, "op": op}
	for k, v := range res {
		ev[k] = v
	}
	w.emit(ev)
}

func vScenario(log *bufio.Writer, seed int64, scn int) {
	rnd := rand.New(rand.NewSource(seed*104729 + int64(scn)))
	w := &vWorld{log: log, delay: []int{0, 50, 300, 1500}[rnd.Intn(4)]}
	interval := []time.Duration{time.Millisecond, 5 * time.Millisecond, 2 * time.Second}[rnd.Intn(3)]
	noUpdate := rnd.Intn(3) == 0
	w.mu.Lock()
	w.emit(vM{"ev": "reset", "scn": scn, "seed": seed, "delay": w.delay, "interval_ms": int(interval / time.Millisecond), "noupdate": noUpdate})
	w.mu.Unlock()
	o, err := NewPdOracle(&vPD{w: w}, &PDOracleOptions{UpdateInterval: interval, NoUpdateTS: noUpdate})
	if err != nil {
		panic(err)
	}
	defer o.Close()
	opt := &oracle.Option{TxnScope: oracle.GlobalTxnScope}
	workers := 2 + rnd.Intn(5)
	var wg sync.WaitGroup
	for g := 0; g < workers; g++ {
		wg.Add(1)
		r := rand.New(rand.NewSource(rnd.Int63()))
		go func() {
			defer wg.Done()
			ctx := context.Background()
			for i := 0; i < 25; i++ {
				switch r.Intn(10) {
				case 0, 1, 2:
					id := w.call("GetTimestamp", nil)
					ts, err := o.GetTimestamp(ctx, opt)
					w.ret(id, "GetTimestamp", vM{"ts": ts, "ok": err == nil})
				case 3:
					id := w.call("GetTimestamp", nil) // the async form is the same operation for the history
					ts, err := o.GetTimestampAsync(ctx, opt).Wait()
					w.ret(id, "GetTimestamp", vM{"ts": ts, "ok": err == nil})
				case 4, 5:
					id := w.call("LowRes", nil)
					var ts uint64
					var err error
					if r.Intn(2) == 0 {
						ts, err = o.GetLowResolutionTimestamp(ctx, opt)
					} else {
						ts, err = o.GetLowResolutionTimestampAsync(ctx, opt).Wait()
					}
					w.ret(id, "LowRes", vM{"ts": ts, "ok": err == nil})
				case 6, 7, 8:
					// a timestamp PD has issued, the one just above it, or one well beyond
					w.mu.Lock()
					max := w.maxTS
					w.mu.Unlock()
					var read uint64
					switch r.Intn(4) {
					case 0:
						read = max
					case 1:
						read = max - uint64(r.Intn(3))
					case 2:
						read = max + 1
					default:
						read = oracle.ComposeTS(oracle.ExtractPhysical(max)+int64(1+r.Intn(50)), 0)
					}
					stale := r.Intn(2) == 0
					id := w.call("Validate", vM{"read": read, "stale": stale})
					err := o.ValidateReadTS(ctx, read, stale, opt)
					w.ret(id, "Validate", vM{"read": read, "accepted": err == nil})
				default:
					low0, _ := o.GetLowResolutionTimestamp(ctx, opt)
					w.mu.Lock()
					lock := w.maxTS
					w.mu.Unlock()
					lock = oracle.ComposeTS(oracle.ExtractPhysical(lock)-int64(r.Intn(6)), 0)
					ttl := uint64(r.Intn(6))
					expired := o.IsExpired(lock, ttl, opt)
					until := o.UntilExpired(lock, ttl, opt)
					low1, _ := o.GetLowResolutionTimestamp(ctx, opt)
					id := w.call("Expiry", nil)
					w.ret(id, "Expiry", vM{"lockphys": oracle.ExtractPhysical(lock), "ttl": ttl, "expired": expired, "until": until,
						"low0phys": oracle.ExtractPhysical(low0), "low1phys": oracle.ExtractPhysical(low1), "stable": low0 == low1})
				}
			}
		}()
	}
	wg.Wait()
	w.mu.Lock()
	w.closed = true
	w.mu.Unlock()
}

func TestVerifOracle(t *testing.T) {
	out := os.Getenv("VERIF_OUT")
	if out == "" {
		t.Skip("VERIF_OUT not set")
	}
	seed, _ := strconv.ParseInt(os.Getenv("VERIF_SEED"), 10, 64)
	n, _ := strconv.Atoi(os.Getenv("VERIF_N"))
	if n == 0 {
		n = 50
	}
	old := EnableTSValidation.Load()
	EnableTSValidation.Store(true)
	defer EnableTSValidation.Store(old)
	f, err := os.Create(out)
	if err != nil {
		t.Fatal(err)
	}
	defer f.Close()
	log := bufio.NewWriterSize(f, 1<<20)
	defer log.Flush()
	for s := 0; s < n; s++ {
		vScenario(log, seed, s)
	}
}
