package rawkv

// C11 harness.  Seeded call sequences through the real rawkv.Client over mocktikv.  The RPC client is wrapped
// by a gate that (a) injects region splits, merges and leader transfers immediately before a request reaches
// the store - i.e. after the client's region lookup, and between the partial requests of one call - and
// (b) logs every request with the bounds of the region it addressed and whether the store accepted it.
// After every call the engine's content is read directly (not through the client) and logged.
// Trace_RawKV.tla decides.

import (
	"bufio"
	"bytes"
	"context"
	"encoding/binary"
	"encoding/json"
	"fmt"
	"hash/crc64"
	"math/rand"
	"os"
	"sort"
	"strconv"
	"sync"
	"testing"
	"time"

	"github.com/pingcap/failpoint"
	"github.com/tikv/client-go/v2/internal/client"
	"github.com/tikv/client-go/v2/util/async"
	"github.com/tikv/client-go/v2/internal/locate"
	"github.com/tikv/client-go/v2/internal/mockstore/mocktikv"
	"github.com/tikv/client-go/v2/tikvrpc"
	"github.com/tikv/client-go/v2/util"
)

type vM = map[string]interface{}

const vNKeys = 8
const vCF = "CF_DEFAULT"

var vPool = []string{"\x00", "a", "a\x00", "ab", "abc", "b", "b\x00\x00", "b\xff", "c", "cc", "d", "k1", "k10", "k2", "m", "m\x00", "zz", "\xff", "\xff\xff"}
// weights: Get 1, Put 3, Delete 1, BatchGet 2, BatchPut 3, BatchDelete 1, DeleteRange 1, Scan 3, ReverseScan 3, Checksum 1, CAS 2
var vOpTable = []int{0, 1, 1, 2, 3, 4, 4, 5, 5, 6, 7, 8, 9, 9, 10, 11, 11, 12, 13, 14, 14}
var vValues = [][]byte{{}, []byte("x"), []byte("yy"), []byte("zzz")}

type vWorld struct {
	t       *testing.T
	rnd     *rand.Rand
	keys    [][]byte // index 1..vNKeys (0 unused)
	idx     map[string]int
	cluster *mocktikv.Cluster
	store   mocktikv.MVCCStore
	cli     *Client
	gate    *vGate
	log     *bufio.Writer
	rate    float64
	topo    int
}

type vGate struct {
	mu    sync.Mutex
	inner client.Client
	w     *vWorld
}

func (g *vGate) Close() error                                  { return g.inner.Close() }
func (g *vGate) CloseAddr(addr string) error                   { return g.inner.CloseAddr(addr) }
func (g *vGate) SetEventListener(l client.ClientEventListener) { g.inner.SetEventListener(l) }
func (g *vGate) SendRequestAsync(ctx context.Context, addr string, req *tikvrpc.Request, cb async.Callback[*tikvrpc.Response]) {
	resp, err := g.SendRequest(ctx, addr, req, 0)
	cb.Invoke(resp, err)
}

func (w *vWorld) emit(m vM) {
	b, err := json.Marshal(m)
	if err != nil {
		panic(err)
	}
	w.log.Write(b)
	w.log.WriteByte('\n')
	w.log.Flush()
}

func (w *vWorld) kidx(k []byte) int {
	if len(k) == 0 {
		return 0
	}
	if i, ok := w.idx[string(k)]; ok {
		return i
	}
	return 99
}

func (w *vWorld) kidxs(ks [][]byte) []int {
	out := make([]int, 0, len(ks))
	for _, k := range ks {
		out = append(out, w.kidx(k))
	}
	return out
}

func vidx(v []byte) int {
	if v == nil {
		return -1
	}
	for i, x := range vValues {
		if bytes.Equal(x, v) {
			return i
		}
	}
	return 99
}

// boundaries currently present (as key indexes), from the cluster itself
func (w *vWorld) bounds() []int {
	var out []int
	for _, r := range w.cluster.GetAllRegions() {
		if len(r.Meta.StartKey) > 0 {
			out = append(out, w.kidx(r.Meta.StartKey))
		}
	}
	sort.Ints(out)
	return out
}

func (w *vWorld) split(b int) {
	key := w.keys[b]
	r, _, _, _ := w.cluster.GetRegionByKey(key)
	if bytes.Equal(r.StartKey, key) {
		return
	}
	ids := w.cluster.AllocIDs(len(r.Peers) + 1)
	w.cluster.SplitRaw(r.Id, ids[0], key, ids[1:], ids[1])
	w.emit(vM{"ev": "topo", "kind": "split", "at": b})
}

func (w *vWorld) merge(b int) {
	key := w.keys[b]
	right, _, _, _ := w.cluster.GetRegionByKey(key)
	if !bytes.Equal(right.StartKey, key) {
		return
	}
	left, _, _, _ := w.cluster.GetPrevRegionByKey(key)
	if left == nil {
		return
	}
	w.cluster.Merge(left.Id, right.Id)
	w.emit(vM{"ev": "topo", "kind": "merge", "at": b})
}

func (w *vWorld) transfer() {
	rs := w.cluster.GetAllRegions()
	sort.Slice(rs, func(i, j int) bool { return rs[i].Meta.Id < rs[j].Meta.Id })
	r := rs[w.rnd.Intn(len(rs))]
	_, leader := w.cluster.GetRegion(r.Meta.Id)
	for _, p := range r.Meta.Peers {
		if p.Id != leader {
			w.cluster.ChangeLeader(r.Meta.Id, p.Id)
			w.emit(vM{"ev": "topo", "kind": "leader", "at": w.kidx(r.Meta.StartKey)})
			return
		}
	}
}

// the harness's own sanity: the regions always partition the key space
func (w *vWorld) checkLayout() {
	rs := w.cluster.GetAllRegions()
	sort.Slice(rs, func(i, j int) bool { return bytes.Compare(rs[i].Meta.StartKey, rs[j].Meta.StartKey) < 0 })
	for i, r := range rs {
		if i == 0 && len(r.Meta.StartKey) != 0 || i == len(rs)-1 && len(r.Meta.EndKey) != 0 ||
			i > 0 && !bytes.Equal(rs[i-1].Meta.EndKey, r.Meta.StartKey) {
			panic(fmt.Sprintf("harness broke the region layout: %v", rs))
		}
	}
}

func (w *vWorld) maybeTopo() {
	defer w.checkLayout()
	for w.topo < 40 && w.rnd.Float64() < w.rate {
		w.topo++
		switch w.rnd.Intn(5) {
		case 0, 1:
			w.split(2 + w.rnd.Intn(vNKeys-1))
		case 2, 3:
			if bs := w.bounds(); len(bs) > 0 {
				w.merge(bs[w.rnd.Intn(len(bs))])
			}
		default:
			w.transfer()
		}
	}
}

func (g *vGate) SendRequest(ctx context.Context, addr string, req *tikvrpc.Request, timeout time.Duration) (*tikvrpc.Response, error) {
	g.mu.Lock()
	defer g.mu.Unlock()
	w := g.w
	w.maybeTopo()
	ev := vM{"ev": "rpc", "cmd": req.Type.String(), "keys": []int{}, "s": 0, "e": 0, "rev": false, "rs": -1, "re": -1}
	if r, _ := w.cluster.GetRegion(req.Context.GetRegionId()); r != nil {
		ev["rs"], ev["re"] = w.kidx(r.StartKey), w.kidx(r.EndKey)
	}
	switch req.Type {
	case tikvrpc.CmdRawGet:
		ev["keys"] = []int{w.kidx(req.RawGet().Key)}
	case tikvrpc.CmdRawPut:
		ev["keys"] = []int{w.kidx(req.RawPut().Key)}
	case tikvrpc.CmdRawDelete:
		ev["keys"] = []int{w.kidx(req.RawDelete().Key)}
	case tikvrpc.CmdRawCompareAndSwap:
		ev["keys"] = []int{w.kidx(req.RawCompareAndSwap().Key)}
	case tikvrpc.CmdRawBatchGet:
		ev["keys"] = w.kidxs(req.RawBatchGet().Keys)
	case tikvrpc.CmdRawBatchDelete:
		ev["keys"] = w.kidxs(req.RawBatchDelete().Keys)
	case tikvrpc.CmdRawBatchPut:
		ks := []int{}
		for _, p := range req.RawBatchPut().Pairs {
			ks = append(ks, w.kidx(p.Key))
		}
		ev["keys"] = ks
	case tikvrpc.CmdRawScan:
		ev["s"], ev["e"], ev["rev"] = w.kidx(req.RawScan().StartKey), w.kidx(req.RawScan().EndKey), req.RawScan().Reverse
	case tikvrpc.CmdRawDeleteRange:
		ev["s"], ev["e"] = w.kidx(req.RawDeleteRange().StartKey), w.kidx(req.RawDeleteRange().EndKey)
	case tikvrpc.CmdRawChecksum:
		ev["s"], ev["e"] = w.kidx(req.RawChecksum().Ranges[0].StartKey), w.kidx(req.RawChecksum().Ranges[0].EndKey)
	}
	resp, err := g.inner.SendRequest(ctx, addr, req, timeout)
	accepted := false
	ev["rerr"] = ""
	if err != nil {
		ev["rerr"] = "send: " + err.Error()
	} else if resp != nil && resp.Resp != nil {
		if re, e2 := resp.GetRegionError(); e2 == nil && re == nil {
			accepted = true
		} else if re != nil {
			ev["rerr"] = re.String()
		}
	}
	ev["accepted"] = accepted
	w.emit(ev)
	return resp, err
}

func (w *vWorld) proj() []int {
	raw := w.store.(mocktikv.RawKV)
	out := make([]int, vNKeys)
	for i := 1; i <= vNKeys; i++ {
		out[i-1] = vidx(raw.RawGet(vCF, w.keys[i]))
	}
	return out
}

func (w *vWorld) bound(i int) []byte {
	if i == 0 {
		return nil
	}
	return w.keys[i]
}

func (w *vWorld) randKeys(n int) ([]int, [][]byte) {
	is := make([]int, n)
	ks := make([][]byte, n)
	for j := range is {
		is[j] = 1 + w.rnd.Intn(vNKeys)
		ks[j] = w.keys[is[j]]
	}
	return is, ks
}

func be8(x uint64) []int {
	var b [8]byte
	binary.BigEndian.PutUint64(b[:], x)
	out := make([]int, 8)
	for i, c := range b {
		out[i] = int(c)
	}
	return out
}

func (w *vWorld) call(ev vM, f func() error) {
	var err error
	func() {
		defer func() {
			if r := recover(); r != nil {
				err = fmt.Errorf("panic: %v", r)
			}
		}()
		err = f()
	}()
	ev["ev"] = "op"
	ev["err"] = ""
	if err != nil {
		ev["err"] = err.Error()
	}
	w.gate.mu.Lock()
	ev["proj"] = w.proj()
	w.emit(ev)
	w.gate.mu.Unlock()
}

func (w *vWorld) step() {
	ctx, cancel := context.WithTimeout(context.Background(), 30*time.Second)
	defer cancel()
	c := w.cli
	switch op := vOpTable[w.rnd.Intn(len(vOpTable))]; op {
	case 0:
		is, ks := w.randKeys(1)
		ev := vM{"op": "Get", "k": is[0], "out": 99}
		w.call(ev, func() error { v, err := c.Get(ctx, ks[0]); ev["out"] = vidx(v); return err })
	case 1, 2:
		is, ks := w.randKeys(1)
		v := w.rnd.Intn(len(vValues))
		ttl := uint64(0)
		if w.rnd.Intn(3) == 0 {
			ttl = uint64(1 + w.rnd.Intn(1000))
		}
		ev := vM{"op": "Put", "k": is[0], "v": v, "ttl": ttl}
		w.call(ev, func() error {
			if ttl > 0 {
				return c.PutWithTTL(ctx, ks[0], vValues[v], ttl)
			}
			return c.Put(ctx, ks[0], vValues[v])
		})
	case 3:
		is, ks := w.randKeys(1)
		w.call(vM{"op": "Delete", "k": is[0]}, func() error { return c.Delete(ctx, ks[0]) })
	case 4:
		is, ks := w.randKeys(1 + w.rnd.Intn(6))
		ev := vM{"op": "BatchGet", "ks": is, "out": []int{}}
		w.call(ev, func() error {
			vs, err := c.BatchGet(ctx, ks)
			out := []int{}
			for _, v := range vs {
				out = append(out, vidx(v))
			}
			ev["out"] = out
			return err
		})
	case 5, 6:
		is, ks := w.randKeys(1 + w.rnd.Intn(7))
		vs := make([]int, len(is))
		vals := make([][]byte, len(is))
		for j := range vs {
			vs[j] = w.rnd.Intn(len(vValues))
			vals[j] = vValues[vs[j]]
		}
		var ttls []uint64
		if w.rnd.Intn(3) == 0 {
			for range is {
				ttls = append(ttls, uint64(1+w.rnd.Intn(1000)))
			}
		}
		w.call(vM{"op": "BatchPut", "ks": is, "vs": vs}, func() error {
			if ttls != nil {
				return c.BatchPutWithTTL(ctx, ks, vals, ttls)
			}
			return c.BatchPut(ctx, ks, vals)
		})
	case 7:
		is, ks := w.randKeys(1 + w.rnd.Intn(5))
		w.call(vM{"op": "BatchDelete", "ks": is}, func() error { return c.BatchDelete(ctx, ks) })
	case 8:
		s, e := w.rnd.Intn(vNKeys+1), w.rnd.Intn(vNKeys+1)
		if w.rnd.Intn(3) > 0 && s > 0 { // mostly short ranges, so that the store does not stay empty
			e = s + 1 + w.rnd.Intn(3)
			if e > vNKeys {
				e = 0
			}
		}
		w.call(vM{"op": "DeleteRange", "s": s, "e": e}, func() error { return c.DeleteRange(ctx, w.bound(s), w.bound(e)) })
	case 9, 10, 11, 12:
		s, e := w.rnd.Intn(vNKeys+1), w.rnd.Intn(vNKeys+1)
		rev := op >= 11
		// mostly well-oriented ranges (forward: s < e or unbounded end; reverse: s > e)
		if w.rnd.Intn(8) > 0 && e != 0 && (s > e) != rev {
			s, e = e, s
		}
		if w.rnd.Intn(8) > 0 && s == e {
			e = 0
		}
		limit := 1 + w.rnd.Intn(vNKeys)
		switch w.rnd.Intn(16) {
		case 0, 1:
			limit = 100
		case 2:
			limit = 0
		}
		keyOnly := w.rnd.Intn(4) == 0
		if rev && s == 0 { // documented: a reverse scan cannot start from the empty key
			s = 1 + w.rnd.Intn(vNKeys)
		}
		name := "Scan"
		if rev {
			name = "ReverseScan"
		}
		ev := vM{"op": name, "s": s, "e": e, "limit": limit, "keyonly": keyOnly, "outk": []int{}, "outv": []int{}}
		w.call(ev, func() error {
			var opts []RawOption
			if keyOnly {
				opts = append(opts, ScanKeyOnly())
			}
			var ks, vs [][]byte
			var err error
			if rev {
				ks, vs, err = c.ReverseScan(ctx, w.bound(s), w.bound(e), limit, opts...)
			} else {
				ks, vs, err = c.Scan(ctx, w.bound(s), w.bound(e), limit, opts...)
			}
			ev["outk"] = w.kidxs(ks)
			ov := []int{}
			for _, v := range vs {
				ov = append(ov, vidx(v))
			}
			ev["outv"] = ov
			return err
		})
	case 13:
		s, e := w.rnd.Intn(vNKeys+1), w.rnd.Intn(vNKeys+1)
		ev := vM{"op": "Checksum", "s": s, "e": e, "kvs": -1, "bytes": -1, "crc": be8(0)}
		w.call(ev, func() error {
			cs, err := c.Checksum(ctx, w.bound(s), w.bound(e))
			ev["kvs"], ev["bytes"], ev["crc"] = cs.TotalKvs, cs.TotalBytes, be8(cs.Crc64Xor)
			return err
		})
	default:
		is, ks := w.randKeys(1)
		prev := w.rnd.Intn(len(vValues)+1) - 1
		nv := w.rnd.Intn(len(vValues))
		var pv []byte
		if prev >= 0 {
			pv = vValues[prev]
		}
		ev := vM{"op": "CompareAndSwap", "k": is[0], "prev": prev, "new": nv, "old": 99, "swapped": false}
		w.call(ev, func() error {
			c.SetAtomicForCAS(true)
			defer c.SetAtomicForCAS(false)
			old, ok, err := c.CompareAndSwap(ctx, ks[0], pv, vValues[nv])
			ev["old"], ev["swapped"] = vidx(old), ok
			return err
		})
	}
}

func vScenario(t *testing.T, log *bufio.Writer, seed int64, scn int, nops int) {
	rnd := rand.New(rand.NewSource(seed*1000003 + int64(scn)))
	w := &vWorld{t: t, rnd: rnd, log: log, idx: map[string]int{}}
	perm := rnd.Perm(len(vPool))[:vNKeys]
	ks := make([]string, 0, vNKeys)
	for _, p := range perm {
		ks = append(ks, vPool[p])
	}
	sort.Strings(ks)
	w.keys = make([][]byte, vNKeys+1)
	klen := make([]int, vNKeys)
	for i, k := range ks {
		w.keys[i+1] = []byte(k)
		w.idx[k] = i + 1
		klen[i] = len(k)
	}
	vlen := make([]int, len(vValues))
	for i, v := range vValues {
		vlen[i] = len(v)
	}
	tab := crc64.MakeTable(crc64.ECMA)
	dg := make([][][]int, vNKeys)
	for i := 1; i <= vNKeys; i++ {
		for _, v := range vValues {
			h := crc64.New(tab)
			h.Write(w.keys[i])
			h.Write(v)
			dg[i-1] = append(dg[i-1], be8(h.Sum64()))
		}
	}
	w.store = mocktikv.MustNewMVCCStore()
	defer w.store.Close()
	w.cluster = mocktikv.NewCluster(w.store)
	mocktikv.BootstrapWithMultiStores(w.cluster, 2)
	w.gate = &vGate{inner: mocktikv.NewRPCClient(w.cluster, w.store, nil), w: w}
	// mocktikv computes checksums over the column family "CF_DEFAULT" only (the request carries none)
	w.cli = &Client{clusterID: 0, regionCache: locate.NewRegionCache(mocktikv.NewPDClient(w.cluster)), rpcClient: w.gate, cf: vCF}
	defer w.cli.Close()
	w.rate = []float64{0, 0.1, 0.3, 0.6}[rnd.Intn(4)]
	w.emit(vM{"ev": "reset", "scn": scn, "seed": seed, "nkeys": vNKeys, "klen": klen, "vlen": vlen, "dg": dg, "rate": w.rate})
	for n := rnd.Intn(7); n > 0; n-- {
		w.split(2 + rnd.Intn(vNKeys-1))
	}
	// warm part of the cache under the initial layout, then optionally change the layout behind the client's back
	if rnd.Intn(2) == 0 {
		for i := 1; i <= vNKeys; i += 1 + rnd.Intn(3) {
			w.cli.Get(context.Background(), w.keys[i])
		}
		w.gate.mu.Lock()
		saved := w.rate
		w.rate = 0.7
		w.maybeTopo()
		w.rate, w.topo = saved, 0
		w.gate.mu.Unlock()
	}
	// most scenarios start from a well filled store
	if rnd.Intn(4) > 0 {
		var is []int
		var ks, vs [][]byte
		var vi []int
		for i := 1; i <= vNKeys; i++ {
			if rnd.Intn(4) > 0 {
				v := rnd.Intn(len(vValues))
				is, ks, vs, vi = append(is, i), append(ks, w.keys[i]), append(vs, vValues[v]), append(vi, v)
			}
		}
		if len(is) > 0 {
			w.call(vM{"op": "BatchPut", "ks": is, "vs": vi}, func() error { return w.cli.BatchPut(context.Background(), ks, vs) })
		}
	}
	for i := 0; i < nops; i++ {
		w.step()
	}
}

func TestVerifRawKV(t *testing.T) {
	out := os.Getenv("VERIF_OUT")
	if out == "" {
		t.Skip("VERIF_OUT not set")
	}
	seed, _ := strconv.ParseInt(os.Getenv("VERIF_SEED"), 10, 64)
	n, _ := strconv.Atoi(os.Getenv("VERIF_N"))
	if n == 0 {
		n = 50
	}
	nops, _ := strconv.Atoi(os.Getenv("VERIF_OPS"))
	if nops == 0 {
		nops = 30
	}
	util.EnableFailpoints()
	if err := failpoint.Enable("tikvclient/fastBackoffBySkipSleep", "return"); err != nil {
		t.Fatal(err)
	}
	defer failpoint.Disable("tikvclient/fastBackoffBySkipSleep")
	f, err := os.Create(out)
	if err != nil {
		t.Fatal(err)
	}
	defer f.Close()
	log := bufio.NewWriterSize(f, 1<<16)
	only, _ := strconv.Atoi(os.Getenv("VERIF_ONLY"))
	for s := 0; s < n; s++ {
		if os.Getenv("VERIF_ONLY") != "" && s != only {
			continue
		}
		vScenario(t, log, seed, s, nops)
	}
	log.Flush()
}
