package mocktikv

// C12 harness: drives MVCCLevelDB with command sequences (seeded random walks, or scenario files
// exported from the TLC state graph of MC_MVCC) and records, for every command, the arguments, the
// answer and the full per-key projection (lock + write records) read straight from the store.
// Trace_MVCC.tla decides.  Timestamps are logged in the compact exact form p*1000+l.

import (
	"bufio"
	"encoding/json"
	"fmt"
	"math"
	"math/rand"
	"os"
	"sort"
	"strconv"
	"strings"
	"testing"

	"github.com/pingcap/kvproto/pkg/kvrpcpb"
	"github.com/pingcap/goleveldb/leveldb/util"
)

const vMaxTs = 2147483647
const vNKeys = 4

func vts(c int) uint64 { // compact -> real
	if c == vMaxTs {
		return math.MaxUint64
	}
	return uint64(c/1000)<<18 | uint64(c%1000)
}
func vcts(t uint64) int { // real -> compact
	if t == math.MaxUint64 {
		return vMaxTs
	}
	l := int(t & 0x3ffff)
	if l >= 1000 {
		panic(fmt.Sprintf("logical part %d out of the compact range", l))
	}
	return int(t>>18)*1000 + l
}
func vkey(i int) []byte {
	if i == 0 {
		return nil
	}
	return []byte{'k', byte('0' + i)}
}
func vkeyIdx(k []byte) int {
	if len(k) == 2 && k[0] == 'k' {
		return int(k[1] - '0')
	}
	return -1
}
func vval(v int) []byte {
	if v == 0 {
		return nil
	}
	return []byte{byte(v)}
}
func vvalInt(b []byte) int {
	if len(b) == 0 {
		return 0
	}
	return int(b[0])
}

type M = map[string]interface{}

func vErr(err error) (string, int) {
	if err == nil {
		return "none", 0
	}
	switch e := err.(type) {
	case *ErrLocked:
		return "locked", vcts(e.StartTS)
	case *ErrKeyAlreadyExist:
		return "exists", 0
	case ErrRetryable:
		return "txnnotfound", 0
	case ErrAbort:
		return "abort", 0
	case ErrAlreadyCommitted:
		return "committed", vcts(uint64(e))
	case *ErrAlreadyRollbacked:
		return "rolledback", 0
	case *ErrConflict:
		return "conflict", vcts(e.ConflictCommitTS)
	case *ErrDeadlock:
		return "deadlock", vcts(e.LockTS)
	case *ErrCommitTSExpired:
		return "expired", vcts(e.MinCommitTs)
	case *ErrTxnNotFound:
		return "txnnotfound", 0
	case *ErrAssertionFailed:
		return "assertion", 0
	}
	s := err.Error()
	switch {
	case strings.Contains(s, "lock doesn't exist"):
		return "nolock", 0
	case strings.Contains(s, "non-primary key"):
		return "notprimary", 0
	case strings.Contains(s, "LockOnlyIfExists is set"):
		return "badrequest", 0
	case strings.Contains(s, "under safePoint"):
		return "lockbelowsafepoint", 0
	}
	return "other:" + s, 0
}

func vErrSeq(errs []error) []M {
	out := []M{}
	for _, e := range errs {
		if e != nil {
			k, t := vErr(e)
			out = append(out, M{"err": k, "ets": t})
		}
	}
	return out
}

var vLockKind = map[kvrpcpb.Op]string{kvrpcpb.Op_Put: "Put", kvrpcpb.Op_Del: "Del", kvrpcpb.Op_Lock: "Lock", kvrpcpb.Op_PessimisticLock: "Pessimistic"}
var vRecType = map[mvccValueType]string{typePut: "Put", typeDelete: "Del", typeRollback: "Rollback", typeLock: "Lock"}

// vProj reads lock and write records of every key directly from the underlying leveldb.
func vProj(s *MVCCLevelDB) M {
	s.mu.RLock()
	defer s.mu.RUnlock()
	locks := make([]M, vNKeys)
	writes := make([][]M, vNKeys)
	for i := 1; i <= vNKeys; i++ {
		key := vkey(i)
		locks[i-1] = M{"ts": 0, "primary": 0, "kind": "None", "val": 0, "ttl": 0, "fts": 0, "minc": 0}
		writes[i-1] = []M{}
		iter := newIterator(s.getDB(""), &util.Range{Start: mvccEncode(key, lockVer)})
		dec1 := lockDecoder{expectKey: key}
		ok, err := dec1.Decode(iter)
		if err != nil {
			panic(err)
		}
		if ok {
			l := dec1.lock
			kind, known := vLockKind[l.op]
			if !known {
				kind = "op:" + l.op.String()
			}
			locks[i-1] = M{"ts": vcts(l.startTS), "primary": vkeyIdx(l.primary), "kind": kind, "val": vvalInt(l.value),
				"ttl": int(l.ttl), "fts": vcts(l.forUpdateTS), "minc": vcts(l.minCommitTS)}
		}
		dec2 := valueDecoder{expectKey: key}
		for iter.Valid() {
			ok, err := dec2.Decode(iter)
			if err != nil {
				panic(err)
			}
			if !ok {
				break
			}
			v := dec2.value
			writes[i-1] = append(writes[i-1], M{"type": vRecType[v.valueType], "start": vcts(v.startTS), "commit": vcts(v.commitTS), "val": vvalInt(v.value)})
		}
		iter.Release()
	}
	return M{"lock": locks, "writes": writes}
}

func vPairs(ps []Pair) []M {
	out := []M{}
	for _, p := range ps {
		k, t := vErr(p.Err)
		key := p.Key
		if p.Err != nil {
			if le, ok := p.Err.(*ErrLocked); ok {
				key = le.Key.Raw()
			}
		}
		out = append(out, M{"k": vkeyIdx(key), "err": k, "lts": t, "val": vvalInt(p.Value)})
	}
	return out
}

func geti(c M, f string) int {
	switch v := c[f].(type) {
	case int:
		return v
	case float64:
		return int(v)
	case bool:
		if v {
			return 1
		}
		return 0
	}
	panic("missing int field " + f + " in " + fmt.Sprint(c))
}
func getb(c M, f string) bool {
	if v, ok := c[f].(bool); ok {
		return v
	}
	panic("missing bool field " + f)
}
func getis(c M, f string) []int {
	switch v := c[f].(type) {
	case []int:
		return v
	case []interface{}:
		out := make([]int, len(v))
		for i, x := range v {
			out[i] = int(x.(float64))
		}
		return out
	}
	panic("missing int list field " + f)
}
func getms(c M, f string) []M {
	switch v := c[f].(type) {
	case []M:
		return v
	case []interface{}:
		out := make([]M, len(v))
		for i, x := range v {
			out[i] = M(x.(map[string]interface{}))
		}
		return out
	}
	panic("missing record list field " + f)
}
func u64s(xs []int) []uint64 {
	out := make([]uint64, len(xs))
	for i, x := range xs {
		out[i] = vts(x)
	}
	return out
}
func keysOf(xs []int) [][]byte {
	out := make([][]byte, len(xs))
	for i, x := range xs {
		out[i] = vkey(x)
	}
	return out
}

var vOps = map[string]kvrpcpb.Op{"Put": kvrpcpb.Op_Put, "Del": kvrpcpb.Op_Del, "Lock": kvrpcpb.Op_Lock, "Insert": kvrpcpb.Op_Insert, "CheckNotExists": kvrpcpb.Op_CheckNotExists}
var vActs = map[string]kvrpcpb.PrewriteRequest_PessimisticAction{"skip": kvrpcpb.PrewriteRequest_SKIP_PESSIMISTIC_CHECK,
	"pess": kvrpcpb.PrewriteRequest_DO_PESSIMISTIC_CHECK, "constraint": kvrpcpb.PrewriteRequest_DO_CONSTRAINT_CHECK}

// vExec runs one command on the store and returns the answer in the shape Trace_MVCC.tla expects.
func vExec(s *MVCCLevelDB, c M) (resp M) {
	defer func() {
		if e := recover(); e != nil {
			resp = M{"panic": fmt.Sprint(e)}
		}
	}()
	si := kvrpcpb.IsolationLevel_SI
	switch c["c"].(string) {
	case "Get":
		p := s.GetKVPair(vkey(geti(c, "k")), vts(geti(c, "ts")), si, u64s(getis(c, "resolved")))
		k, t := vErr(p.Err)
		return M{"err": k, "lts": t, "val": vvalInt(p.Value)}
	case "BatchGet":
		return M{"pairs": vPairs(s.BatchGet(keysOf(getis(c, "ks")), vts(geti(c, "ts")), si, u64s(getis(c, "resolved"))))}
	case "Scan":
		return M{"pairs": vPairs(s.Scan(vkey(geti(c, "lo")), vkey(geti(c, "hi")), geti(c, "limit"), vts(geti(c, "ts")), si, u64s(getis(c, "resolved"))))}
	case "ReverseScan":
		return M{"pairs": vPairs(s.ReverseScan(vkey(geti(c, "lo")), vkey(geti(c, "hi")), geti(c, "limit"), vts(geti(c, "ts")), si, u64s(getis(c, "resolved"))))}
	case "Prewrite":
		req := &kvrpcpb.PrewriteRequest{Context: &kvrpcpb.Context{}, PrimaryLock: vkey(geti(c, "primary")), StartVersion: vts(geti(c, "start")),
			LockTtl: uint64(geti(c, "ttl")), MinCommitTs: vts(geti(c, "minc")), ForUpdateTs: vts(geti(c, "fts")), TxnSize: 1}
		for _, m := range getms(c, "muts") {
			req.Mutations = append(req.Mutations, &kvrpcpb.Mutation{Op: vOps[m["op"].(string)], Key: vkey(geti(m, "k")), Value: vval(geti(m, "val"))})
			req.PessimisticActions = append(req.PessimisticActions, vActs[m["act"].(string)])
		}
		return M{"errs": vErrSeq(s.Prewrite(req))}
	case "PessimisticLock":
		req := &kvrpcpb.PessimisticLockRequest{Context: &kvrpcpb.Context{}, PrimaryLock: vkey(geti(c, "primary")), StartVersion: vts(geti(c, "start")),
			ForUpdateTs: vts(geti(c, "fts")), LockTtl: uint64(geti(c, "ttl")), MinCommitTs: vts(geti(c, "minc")), ReturnValues: getb(c, "retvals"),
			CheckExistence: getb(c, "checkex"), LockOnlyIfExists: getb(c, "onlyif"), WaitTimeout: LockNoWait}
		if !getb(c, "nowait") {
			req.WaitTimeout = 1
		}
		for _, m := range getms(c, "muts") {
			mu := &kvrpcpb.Mutation{Op: kvrpcpb.Op_PessimisticLock, Key: vkey(geti(m, "k"))}
			if getb(m, "notexist") {
				mu.Assertion = kvrpcpb.Assertion_NotExist
			}
			req.Mutations = append(req.Mutations, mu)
		}
		r := s.PessimisticLock(req)
		errs := []M{}
		for _, ke := range r.Errors {
			errs = append(errs, vKeyErr(ke))
		}
		vals := []int{}
		if len(r.Errors) == 0 {
			if req.ReturnValues {
				for i := range r.Values {
					vals = append(vals, vvalInt(r.Values[i]))
				}
			} else if req.CheckExistence {
				for _, nf := range r.NotFounds {
					if nf {
						vals = append(vals, 0)
					} else {
						vals = append(vals, -1)
					}
				}
			}
		}
		return M{"errs": errs, "vals": vals}
	case "PessimisticRollback":
		errs := s.PessimisticRollback(nil, nil, keysOf(getis(c, "ks")), vts(geti(c, "start")), vts(geti(c, "fts")))
		return M{"errs": vErrSeq(errs)}
	case "Commit":
		k, t := vErr(s.Commit(keysOf(getis(c, "ks")), vts(geti(c, "start")), vts(geti(c, "commit"))))
		return M{"err": k, "ets": t}
	case "Rollback":
		k, t := vErr(s.Rollback(keysOf(getis(c, "ks")), vts(geti(c, "start"))))
		return M{"err": k, "ets": t}
	case "Cleanup":
		k, t := vErr(s.Cleanup(vkey(geti(c, "k")), vts(geti(c, "start")), vts(geti(c, "current"))))
		return M{"err": k, "ets": t}
	case "CheckTxnStatus":
		ttl, commit, action, err := s.CheckTxnStatus(vkey(geti(c, "pk")), vts(geti(c, "lts")), vts(geti(c, "caller")), vts(geti(c, "current")),
			getb(c, "rb"), getb(c, "rp"))
		k, _ := vErr(err)
		return M{"ttl": int(ttl), "commit": vcts(commit), "action": action.String(), "err": k}
	case "TxnHeartBeat":
		ttl, err := s.TxnHeartBeat(vkey(geti(c, "k")), vts(geti(c, "start")), uint64(geti(c, "advise")))
		k, _ := vErr(err)
		return M{"ttl": int(ttl), "err": k}
	case "ResolveLock":
		k, _ := vErr(s.ResolveLock(vkey(geti(c, "lo")), vkey(geti(c, "hi")), vts(geti(c, "start")), vts(geti(c, "commit"))))
		return M{"err": k}
	case "BatchResolveLock":
		infos := map[uint64]uint64{}
		for _, p := range getms(c, "infos") {
			infos[vts(geti(p, "start"))] = vts(geti(p, "commit"))
		}
		k, _ := vErr(s.BatchResolveLock(vkey(geti(c, "lo")), vkey(geti(c, "hi")), infos))
		return M{"err": k}
	case "ScanLock":
		ls, err := s.ScanLock(vkey(geti(c, "lo")), vkey(geti(c, "hi")), vts(geti(c, "maxts")))
		k, _ := vErr(err)
		out := []M{}
		for _, l := range ls {
			out = append(out, M{"k": vkeyIdx(l.Key), "primary": vkeyIdx(l.PrimaryLock), "ts": vcts(l.LockVersion)})
		}
		return M{"err": k, "locks": out}
	case "GC":
		k, _ := vErr(s.GC(vkey(geti(c, "lo")), vkey(geti(c, "hi")), vts(geti(c, "sp"))))
		return M{"err": k}
	}
	panic("unknown command " + fmt.Sprint(c))
}

func vKeyErr(ke *kvrpcpb.KeyError) M {
	switch {
	case ke.Locked != nil:
		return M{"err": "locked", "ets": vcts(ke.Locked.LockVersion)}
	case ke.AlreadyExist != nil:
		return M{"err": "exists", "ets": 0}
	case ke.Conflict != nil:
		return M{"err": "conflict", "ets": vcts(ke.Conflict.ConflictCommitTs)}
	case ke.Deadlock != nil:
		return M{"err": "deadlock", "ets": vcts(ke.Deadlock.LockTs)}
	case strings.Contains(ke.Abort, "LockOnlyIfExists is set"):
		return M{"err": "badrequest", "ets": 0}
	case strings.Contains(ke.Abort, "already rolled back"):
		return M{"err": "rolledback", "ets": 0}
	case strings.Contains(ke.Abort, "lock type not match"):
		return M{"err": "locktype", "ets": 0}
	case strings.Contains(ke.Abort, "pessimistic lock not found"):
		return M{"err": "abort", "ets": 0}
	case ke.Abort != "":
		return M{"err": "abort:" + ke.Abort, "ets": 0}
	case ke.Retryable != "":
		return M{"err": "retryable:" + ke.Retryable, "ets": 0}
	}
	return M{"err": "other:" + ke.String(), "ets": 0}
}

// ------------------------------------------------------------------------------------------------
// random walk generator (well-formed: pairwise distinct timestamps; no pessimistic-lock request of a
// transaction after a command that may have ended it)
// ------------------------------------------------------------------------------------------------
type vTxn struct {
	start   int
	primary int
	keys    []int
	pess    bool
	fts     int
	commit  int
	ended   bool
}

type vGen struct {
	rng   *rand.Rand
	phys  int
	logi  int
	txns  []*vTxn
	allTs []int
}

func (g *vGen) alloc() int {
	if g.rng.Intn(3) == 0 {
		g.phys += 1 + g.rng.Intn(8)
		g.logi = 0
	}
	g.logi++
	t := g.phys*1000 + g.logi
	g.allTs = append(g.allTs, t)
	return t
}
func (g *vGen) someTs() int {
	if g.rng.Intn(8) == 0 {
		return vMaxTs
	}
	if len(g.allTs) > 0 && g.rng.Intn(2) == 0 {
		t := g.allTs[g.rng.Intn(len(g.allTs))]
		return t + g.rng.Intn(2) // ts or ts+1 (never allocated: the allocator skips by >=1 on the next use)
	}
	return g.alloc()
}
func (g *vGen) subset(min int) []int {
	p := g.rng.Perm(vNKeys)
	n := min + g.rng.Intn(vNKeys-min+1)
	if g.rng.Intn(2) == 0 && n > 2 {
		n = 2
	}
	out := make([]int, 0, n)
	for _, x := range p[:n] {
		out = append(out, x+1)
	}
	return out
}
func (g *vGen) rangeLoHi() (int, int) {
	lo := g.rng.Intn(vNKeys + 1)
	hi := 0
	if g.rng.Intn(2) == 0 {
		hi = lo + 1 + g.rng.Intn(vNKeys+1-lo)
	}
	if g.rng.Intn(3) == 0 {
		return 0, 0
	}
	return lo, hi
}
func (g *vGen) txn() *vTxn {
	if len(g.txns) == 0 || (len(g.txns) < 4 && g.rng.Intn(6) == 0) {
		t := &vTxn{start: g.alloc(), pess: g.rng.Intn(2) == 0}
		t.keys = g.subset(1)
		t.primary = t.keys[g.rng.Intn(len(t.keys))]
		g.txns = append(g.txns, t)
		return t
	}
	return g.txns[g.rng.Intn(len(g.txns))]
}
func (g *vGen) resolved() []int {
	out := []int{}
	for _, t := range g.txns {
		if g.rng.Intn(6) == 0 {
			out = append(out, t.start)
		}
	}
	return out
}
func (g *vGen) keysOfTxn(t *vTxn) []int {
	if g.rng.Intn(5) == 0 {
		return g.subset(1)
	}
	ks := append([]int{}, t.keys...)
	g.rng.Shuffle(len(ks), func(i, j int) { ks[i], ks[j] = ks[j], ks[i] })
	return ks[:1+g.rng.Intn(len(ks))]
}

func (g *vGen) next() M {
	r := g.rng.Intn(100)
	t := g.txn()
	switch {
	case r < 8:
		return M{"c": "Get", "k": 1 + g.rng.Intn(vNKeys), "ts": g.someTs(), "resolved": g.resolved()}
	case r < 11:
		return M{"c": "BatchGet", "ks": g.subset(1), "ts": g.someTs(), "resolved": g.resolved()}
	case r < 15:
		lo, hi := g.rangeLoHi()
		return M{"c": "Scan", "lo": lo, "hi": hi, "limit": 1 + g.rng.Intn(5), "ts": g.someTs(), "resolved": g.resolved()}
	case r < 19:
		lo, hi := g.rangeLoHi()
		return M{"c": "ReverseScan", "lo": lo, "hi": hi, "limit": 1 + g.rng.Intn(5), "ts": g.someTs(), "resolved": g.resolved()}
	case r < 37:
		ks := g.keysOfTxn(t)
		muts := []M{}
		for _, k := range ks {
			op := []string{"Put", "Put", "Put", "Del", "Lock", "Insert", "CheckNotExists"}[g.rng.Intn(7)]
			act := "skip"
			if t.pess {
				act = []string{"pess", "pess", "skip", "constraint"}[g.rng.Intn(4)]
			}
			val := 0
			if op == "Put" || op == "Insert" {
				val = 1 + g.rng.Intn(9)
			}
			muts = append(muts, M{"op": op, "k": k, "val": val, "act": act})
		}
		fts := 0
		if t.pess {
			fts = t.fts
			if fts == 0 {
				fts = t.start
			}
		}
		minc := 0
		if g.rng.Intn(2) == 0 {
			minc = t.start + 1
			if g.rng.Intn(2) == 0 {
				minc = g.someTs()
				if minc == vMaxTs {
					minc = t.start + 1
				}
			}
		}
		return M{"c": "Prewrite", "muts": muts, "primary": t.primary, "start": t.start, "ttl": []int{0, 3, 20}[g.rng.Intn(3)], "minc": minc, "fts": fts}
	case r < 50:
		if t.ended || !t.pess {
			return M{"c": "Get", "k": 1 + g.rng.Intn(vNKeys), "ts": g.someTs(), "resolved": g.resolved()}
		}
		if t.fts == 0 || g.rng.Intn(2) == 0 {
			t.fts = g.alloc()
		}
		muts := []M{}
		for _, k := range g.keysOfTxn(t) {
			muts = append(muts, M{"k": k, "notexist": g.rng.Intn(4) == 0})
		}
		retvals := g.rng.Intn(2) == 0
		return M{"c": "PessimisticLock", "muts": muts, "primary": t.primary, "start": t.start, "fts": t.fts, "ttl": []int{0, 3, 20}[g.rng.Intn(3)],
			"minc": 0, "retvals": retvals, "checkex": g.rng.Intn(3) == 0, "onlyif": retvals && g.rng.Intn(4) == 0 || g.rng.Intn(30) == 0, "nowait": g.rng.Intn(2) == 0}
	case r < 54:
		fts := t.fts
		if fts == 0 || g.rng.Intn(4) == 0 {
			fts = g.someTs()
		}
		return M{"c": "PessimisticRollback", "ks": g.keysOfTxn(t), "start": t.start, "fts": fts}
	case r < 66:
		t.ended = true
		if t.commit == 0 || g.rng.Intn(4) == 0 {
			t.commit = g.alloc()
		}
		return M{"c": "Commit", "ks": g.keysOfTxn(t), "start": t.start, "commit": t.commit}
	case r < 73:
		t.ended = true
		return M{"c": "Rollback", "ks": g.keysOfTxn(t), "start": t.start}
	case r < 76:
		t.ended = true
		cur := 0
		if g.rng.Intn(3) != 0 {
			cur = g.someTs()
		}
		return M{"c": "Cleanup", "k": t.primary, "start": t.start, "current": cur}
	case r < 84:
		t.ended = true
		caller := g.someTs()
		return M{"c": "CheckTxnStatus", "pk": t.primary, "lts": t.start, "caller": caller, "current": g.someTs(), "rb": g.rng.Intn(2) == 0, "rp": g.rng.Intn(4) == 0}
	case r < 87:
		return M{"c": "TxnHeartBeat", "k": t.keys[g.rng.Intn(len(t.keys))], "start": t.start, "advise": []int{1, 5, 30}[g.rng.Intn(3)]}
	case r < 92:
		t.ended = true
		lo, hi := g.rangeLoHi()
		commit := 0
		if g.rng.Intn(2) == 0 {
			if t.commit == 0 {
				t.commit = g.alloc()
			}
			commit = t.commit
		}
		return M{"c": "ResolveLock", "lo": lo, "hi": hi, "start": t.start, "commit": commit}
	case r < 95:
		lo, hi := g.rangeLoHi()
		infos := []M{}
		for _, x := range g.txns {
			if g.rng.Intn(2) == 0 {
				x.ended = true
				c := 0
				if g.rng.Intn(2) == 0 {
					if x.commit == 0 {
						x.commit = g.alloc()
					}
					c = x.commit
				}
				infos = append(infos, M{"start": x.start, "commit": c})
			}
		}
		return M{"c": "BatchResolveLock", "lo": lo, "hi": hi, "infos": infos}
	case r < 97:
		lo, hi := g.rangeLoHi()
		return M{"c": "ScanLock", "lo": lo, "hi": hi, "maxts": g.someTs()}
	default:
		lo, hi := g.rangeLoHi()
		sp := g.someTs()
		if sp == vMaxTs || g.rng.Intn(3) != 0 {
			sp = g.alloc() // a safe point above everything that happened so far
		}
		return M{"c": "GC", "lo": lo, "hi": hi, "sp": sp}
	}
}

func TestVerifMVCC(t *testing.T) {
	outp := os.Getenv("VERIF_OUT")
	if outp == "" {
		t.Skip("VERIF_OUT not set")
	}
	seed, _ := strconv.ParseInt(os.Getenv("VERIF_SEED"), 10, 64)
	nscen, _ := strconv.Atoi(os.Getenv("VERIF_N"))
	if nscen == 0 {
		nscen = 200
	}
	maxLen, _ := strconv.Atoi(os.Getenv("VERIF_LEN"))
	if maxLen == 0 {
		maxLen = 40
	}
	f, err := os.Create(outp)
	if err != nil {
		t.Fatal(err)
	}
	defer f.Close()
	w := bufio.NewWriterSize(f, 1<<20)
	defer w.Flush()
	emit := func(m M) {
		b, err := json.Marshal(m)
		if err != nil {
			t.Fatal(err)
		}
		w.Write(b)
		w.WriteByte('\n')
	}
	rng := rand.New(rand.NewSource(seed))
	// audit: the read paths against whatever state has been reached
	audit := func(st *MVCCLevelDB, maxAlloc int) {
		for _, ts := range []int{maxAlloc + 1, vMaxTs} {
			for _, c := range []M{{"c": "Scan", "lo": 0, "hi": 0, "limit": 10, "ts": ts, "resolved": []int{}},
				{"c": "ReverseScan", "lo": 0, "hi": 0, "limit": 10, "ts": ts, "resolved": []int{}},
				{"c": "BatchGet", "ks": []int{1, 2, 3, 4}, "ts": ts, "resolved": []int{}}} {
				emit(M{"ev": "cmd", "cmd": c, "resp": vExec(st, c), "proj": vProj(st)})
			}
		}
	}
	maxTsIn := func(cmds []M) int {
		mx := 0
		for _, c := range cmds {
			for _, f := range []string{"start", "commit", "fts", "lts", "sp"} {
				if v, ok := c[f]; ok {
					if x, ok := v.(float64); ok && int(x) > mx && int(x) != vMaxTs {
						mx = int(x)
					}
				}
			}
		}
		return mx
	}
	// model scenarios are edge-cover paths: the prefix is validated as the last step of its own scenario, so only the
	// state before the last command (sync) and the last command are logged - unless an earlier pessimistic lock request
	// may have fed the deadlock detector, whose wait-for graph is not part of the projection
	run := func(cmds []M, id string) {
		st, err := NewMVCCLevelDB("")
		if err != nil {
			t.Fatal(err)
		}
		full := false
		for _, c := range cmds[:len(cmds)-1] {
			if c["c"] == "PessimisticLock" {
				full = true
			}
		}
		emit(M{"ev": "reset", "scenario": id})
		for i, c := range cmds {
			resp := vExec(st, c)
			if full || i == len(cmds)-1 {
				emit(M{"ev": "cmd", "cmd": c, "resp": resp, "proj": vProj(st)})
			} else if i == len(cmds)-2 {
				emit(M{"ev": "sync", "proj": vProj(st)})
			}
		}
		if rng.Intn(4) == 0 {
			audit(st, maxTsIn(cmds))
		}
		st.Close()
	}
	// scenario files exported from the model (one JSON list of commands per line)
	if sp := os.Getenv("VERIF_SCENARIOS"); sp != "" {
		sf, err := os.Open(sp)
		if err != nil {
			t.Fatal(err)
		}
		sc := bufio.NewScanner(sf)
		sc.Buffer(make([]byte, 1<<20), 1<<26)
		n := 0
		for sc.Scan() {
			var raw []map[string]interface{}
			if err := json.Unmarshal(sc.Bytes(), &raw); err != nil {
				t.Fatal(err)
			}
			cmds := make([]M, len(raw))
			for i, r := range raw {
				cmds[i] = M(r)
			}
			run(cmds, "model-"+strconv.Itoa(n))
			n++
		}
		sf.Close()
	}
	for sc := 0; sc < nscen; sc++ {
		g := &vGen{rng: rng, phys: 1 + rng.Intn(5)}
		n := 5 + rng.Intn(maxLen)
		cmds := make([]M, 0, n)
		st, err := NewMVCCLevelDB("")
		if err != nil {
			t.Fatal(err)
		}
		emit(M{"ev": "reset", "scenario": "rand-" + strconv.Itoa(sc)})
		for i := 0; i < n; i++ {
			c := g.next()
			cmds = append(cmds, c)
			resp := vExec(st, c)
			emit(M{"ev": "cmd", "cmd": c, "resp": resp, "proj": vProj(st)})
			if rng.Intn(7) == 0 || i == n-1 {
				mx := 0
				for _, x := range g.allTs {
					if x > mx {
						mx = x
					}
				}
				audit(st, mx)
			}
		}
		st.Close()
	}
	_ = sort.Ints
}
