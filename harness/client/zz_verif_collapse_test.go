package client

// C18 (anchor client_collapse.go) - request collapsing.  Concurrent callers send region-wide ResolveLock requests
// (collapsible: same region, start version and async flag share one inner request), resolve-lock-lite and batch-resolve
// requests (never collapsed) and Gets through NewReqCollapse over a scripted inner client that records every inner request
// with a logical clock, answers after a seeded delay (sometimes with an error, sometimes later than the callers' time-outs)
// and stamps its answer with the inner request's identity.  One line per call and per inner request; CollapseHistory.tla
// decides.

import (
	"bufio"
	"context"
	"encoding/json"
	"errors"
	"fmt"
	"math/rand"
	"os"
	"strconv"
	"sync"
	"sync/atomic"
	"testing"
	"time"

	"github.com/pingcap/kvproto/pkg/kvrpcpb"
	"github.com/tikv/client-go/v2/tikvrpc"
	"github.com/tikv/client-go/v2/util/async"
)

var cEpoch = time.Now()

type cInner struct {
	Client
	mu    sync.Mutex
	log   *bufio.Writer
	clock *int64
	rnd   *rand.Rand
	n     int64
	maxMs int
	pErr  float64
}

func (c *cInner) tick() int64 { return atomic.AddInt64(c.clock, 1) }

func cDescribe(req *tikvrpc.Request) (kind string, region, start, commit int, isAsync bool) {
	region = int(req.RegionId)
	switch req.Type {
	case tikvrpc.CmdResolveLock:
		r := req.ResolveLock()
		start, commit, isAsync = int(r.StartVersion), int(r.CommitVersion), r.IsAsync
		switch {
		case len(r.Keys) > 0:
			kind = "lite"
		case len(r.TxnInfos) > 0:
			kind = "batch"
		default:
			kind = "resolve"
		}
	default:
		kind = "other"
	}
	return
}

func (c *cInner) SendRequest(ctx context.Context, addr string, req *tikvrpc.Request, timeout time.Duration) (*tikvrpc.Response, error) {
	kind, region, start, commit, isAsync := cDescribe(req)
	id := atomic.AddInt64(&c.n, 1)
	t0 := c.tick()
	c.mu.Lock()
	delay := time.Duration(c.rnd.Intn(c.maxMs*1000+1)) * time.Microsecond
	fail := c.rnd.Float64() < c.pErr
	c.mu.Unlock()
	time.Sleep(delay)
	t1 := c.tick()
	c.mu.Lock()
	b, _ := json.Marshal(bM{"ev": "inner", "id": id, "kind": kind, "region": region, "start": start, "commit": commit, "isasync": isAsync, "t0": t0, "t1": t1, "w1": int(time.Since(cEpoch) / time.Millisecond), "ok": !fail,
		"timeout_ms": int(timeout / time.Millisecond), "addr": addr})
	c.log.Write(b)
	c.log.WriteByte('\n')
	c.mu.Unlock()
	if fail {
		return nil, errors.New("verif: inner request failed")
	}
	// the answer names the inner request it answers
	stamp := fmt.Sprintf("%d", id)
	if req.Type == tikvrpc.CmdResolveLock {
		return &tikvrpc.Response{Resp: &kvrpcpb.ResolveLockResponse{Error: &kvrpcpb.KeyError{Abort: stamp}}}, nil
	}
	return &tikvrpc.Response{Resp: &kvrpcpb.GetResponse{Value: []byte(stamp)}}, nil
}

func (c *cInner) SendRequestAsync(ctx context.Context, addr string, req *tikvrpc.Request, cb async.Callback[*tikvrpc.Response]) {
	go func() { cb.Schedule(c.SendRequest(ctx, addr, req, ReadTimeoutShort)) }()
}
func (c *cInner) Close() error                                                        { return nil }
func (c *cInner) CloseAddr(string) error                                               { return nil }
func (c *cInner) CloseAddrVer(string, uint64) error                                    { return nil }
func (c *cInner) SetEventListener(ClientEventListener)                                 {}

func cScenario(log *bufio.Writer, seed int64, scn int) {
	rnd := rand.New(rand.NewSource(seed*7919 + int64(scn)))
	var clock int64
	inner := &cInner{log: log, clock: &clock, rnd: rand.New(rand.NewSource(rnd.Int63())), maxMs: []int{1, 5, 40}[rnd.Intn(3)], pErr: []float64{0, 0.1}[rnd.Intn(2)]}
	cl := NewReqCollapse(inner)
	inner.mu.Lock()
	b, _ := json.Marshal(bM{"ev": "reset", "scn": scn, "seed": seed, "max_ms": inner.maxMs, "perr": inner.pErr})
	log.Write(b)
	log.WriteByte('\n')
	inner.mu.Unlock()
	workers := 3 + rnd.Intn(8)
	// regions and start versions are scenario-specific: the singleflight group is shared by the whole process
	base := uint64(scn+1) * 1000
	var wg sync.WaitGroup
	for g := 0; g < workers; g++ {
		wg.Add(1)
		r := rand.New(rand.NewSource(rnd.Int63()))
		g := g
		go func() {
			defer wg.Done()
			for i := 0; i < 10; i++ {
				region := base + uint64(r.Intn(2))
				start := base + uint64(10*(1+r.Intn(2)))
				commit := start + 5 // the outcome of a transaction is a function of its start version
				isAsync := r.Intn(6) == 0
				var req *tikvrpc.Request
				kind := "resolve"
				switch x := r.Intn(10); {
				case x < 6:
					req = tikvrpc.NewRequest(tikvrpc.CmdResolveLock, &kvrpcpb.ResolveLockRequest{StartVersion: start, CommitVersion: commit, IsAsync: isAsync})
				case x < 7:
					kind = "lite"
					req = tikvrpc.NewRequest(tikvrpc.CmdResolveLock, &kvrpcpb.ResolveLockRequest{StartVersion: start, CommitVersion: commit, Keys: [][]byte{[]byte("k")}})
				case x < 8:
					kind = "batch"
					req = tikvrpc.NewRequest(tikvrpc.CmdResolveLock, &kvrpcpb.ResolveLockRequest{TxnInfos: []*kvrpcpb.TxnInfo{{Txn: start, Status: commit}}})
					start, commit = 0, 0
				default:
					kind = "other"
					req = tikvrpc.NewRequest(tikvrpc.CmdGet, &kvrpcpb.GetRequest{Key: []byte("k"), Version: start})
					start, commit = 0, 0
				}
				if kind != "resolve" {
					isAsync = false
				}
				req.RegionId = region
				timeout := []int{2, 20, 200}[r.Intn(3)]
				useAsync := r.Intn(4) == 0
				ctx, cancel := context.WithTimeout(context.Background(), time.Duration(timeout)*time.Millisecond)
				var resp *tikvrpc.Response
				var err error
				calls := 1
				t0 := inner.tick()
				startAt := time.Now()
				if useAsync {
					calls = 0
					rl := async.NewRunLoop()
					cb := async.NewCallback(rl, func(rr *tikvrpc.Response, e error) { calls++; resp, err = rr, e })
					cl.SendRequestAsync(ctx, "store1", req, cb)
					wctx, wcancel := context.WithTimeout(context.Background(), time.Duration(timeout+3000)*time.Millisecond)
					for calls == 0 {
						if _, e := rl.Exec(wctx); e != nil {
							break
						}
					}
					wcancel()
				} else {
					resp, err = cl.SendRequest(ctx, "store1", req, time.Duration(timeout)*time.Millisecond)
				}
				lat := time.Since(startAt)
				t1 := inner.tick()
				cancel()
				ev := bM{"ev": "call", "w": g, "i": i, "kind": kind, "region": int(region), "start": int(start), "commit": int(commit), "isasync": isAsync, "api_async": useAsync,
					"timeout_ms": timeout, "latency_ms": int(lat / time.Millisecond), "t0": t0, "t1": t1, "w0": int(startAt.Sub(cEpoch) / time.Millisecond), "returns": calls, "outcome": "err", "inner": 0, "err": ""}
				switch {
				case calls == 0:
					ev["outcome"] = "never"
				case err != nil:
					ev["err"] = fmt.Sprintf("%.60s", err.Error())
				case resp == nil || resp.Resp == nil:
					ev["outcome"] = "nil"
				default:
					ev["outcome"] = "resp"
					switch rr := resp.Resp.(type) {
					case *kvrpcpb.ResolveLockResponse:
						ev["inner"], _ = strconv.Atoi(rr.GetError().GetAbort())
					case *kvrpcpb.GetResponse:
						ev["inner"], _ = strconv.Atoi(string(rr.Value))
					}
				}
				line, _ := json.Marshal(ev)
				inner.mu.Lock()
				log.Write(line)
				log.WriteByte('\n')
				inner.mu.Unlock()
			}
		}()
	}
	wg.Wait()
	time.Sleep(time.Duration(inner.maxMs+5) * time.Millisecond) // inner requests of callers that left end before the next scenario
	inner.mu.Lock()
	log.WriteString("{\"ev\":\"end\"}\n")
	inner.mu.Unlock()
}

func TestVerifCollapse(t *testing.T) {
	out := os.Getenv("VERIF_OUT")
	if out == "" {
		t.Skip("VERIF_OUT not set")
	}
	seed, _ := strconv.ParseInt(os.Getenv("VERIF_SEED"), 10, 64)
	n, _ := strconv.Atoi(os.Getenv("VERIF_N"))
	if n == 0 {
		n = 20
	}
	f, err := os.Create(out)
	if err != nil {
		t.Fatal(err)
	}
	defer f.Close()
	log := bufio.NewWriterSize(f, 1<<20)
	defer log.Flush()
	hb := bHeartbeat()
	for s := 0; s < n; s++ {
		cScenario(log, seed, s)
	}
	fmt.Fprintf(log, "{\"ev\":\"heartbeat\",\"max_gap_ms\":%d}\n", hb())
}
