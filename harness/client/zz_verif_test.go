package client

// C18 harness.  Many goroutines send Get requests with distinct keys to one store through the real RPCClient's batched
// stream; the server (the repository's mock TiKV gRPC service with a scripted BatchCommands handler) echoes the key of
// every request as the value of its response, shuffles the responses of a batch, leaves some requests unanswered, delays
// batches and drops the stream at seeded points.  Callers use different priorities, time-outs, cancellation points and
// forwarding hosts; some scenarios close the client while calls are in flight.  One line per call with what it sent, what
// came back and how long it took.  BatchRPC.tla decides.

import (
	"bufio"
	"context"
	"encoding/json"
	"errors"
	"fmt"
	"math/rand"
	"os"
	"strconv"
	"sync"
	"sync/atomic"
	"testing"
	"time"

	"github.com/pingcap/kvproto/pkg/kvrpcpb"
	"github.com/pingcap/kvproto/pkg/tikvpb"
	"github.com/tikv/client-go/v2/config"
	"github.com/tikv/client-go/v2/internal/client/mockserver"
	"github.com/tikv/client-go/v2/tikvrpc"
)

type bM = map[string]interface{}

func bScenario(log *bufio.Writer, lmu *sync.Mutex, seed int64, scn int) {
	rnd := rand.New(rand.NewSource(seed*32452843 + int64(scn)))
	server, port := mockserver.StartMockTikvService()
	if port <= 0 {
		panic("mock server did not start")
	}
	defer server.Stop()
	pDrop := []float64{0, 0, 0.02, 0.1}[rnd.Intn(4)]
	pSkip := []float64{0, 0.02, 0.1}[rnd.Intn(3)]
	maxDelay := []int{0, 0, 2, 10}[rnd.Intn(4)]
	var smu sync.Mutex
	srnd := rand.New(rand.NewSource(rnd.Int63()))
	var drops, skips int64
	handler := func(req *tikvpb.BatchCommandsRequest) (*tikvpb.BatchCommandsResponse, error) {
		smu.Lock()
		defer smu.Unlock()
		if srnd.Float64() < pDrop {
			atomic.AddInt64(&drops, 1)
			return nil, errors.New("verif: stream dropped by the server")
		}
		if maxDelay > 0 {
			time.Sleep(time.Duration(srnd.Intn(maxDelay*1000)) * time.Microsecond)
		}
		resp := &tikvpb.BatchCommandsResponse{}
		order := srnd.Perm(len(req.Requests))
		for _, i := range order {
			if srnd.Float64() < pSkip {
				atomic.AddInt64(&skips, 1)
				continue // never answered
			}
			r := req.Requests[i]
			var out *tikvpb.BatchCommandsResponse_Response
			if g := r.GetGet(); g != nil {
				out = &tikvpb.BatchCommandsResponse_Response{Cmd: &tikvpb.BatchCommandsResponse_Response_Get{Get: &kvrpcpb.GetResponse{Value: append([]byte("echo:"), g.Key...)}}}
			} else {
				out = &tikvpb.BatchCommandsResponse_Response{Cmd: &tikvpb.BatchCommandsResponse_Response_Empty{Empty: &tikvpb.BatchCommandsEmptyResponse{}}}
			}
			resp.Responses = append(resp.Responses, out)
			resp.RequestIds = append(resp.RequestIds, req.RequestIds[i])
		}
		return resp, nil
	}
	server.OnBatchCommandsRequest.Store(&handler)
	restore := config.UpdateGlobal(func(conf *config.Config) {
		conf.TiKVClient.MaxBatchSize = uint([]int{128, 8, 2}[rnd.Intn(3)])
		conf.TiKVClient.GrpcConnectionCount = uint(1 + rnd.Intn(2))
	})
	defer restore()
	rpc := NewRPCClient()
	closeAt := -1
	if rnd.Intn(4) == 0 {
		closeAt = 5 + rnd.Intn(40) // the client is closed after this many milliseconds, with calls in flight
	}
	lmu.Lock()
	b, _ := json.Marshal(bM{"ev": "reset", "scn": scn, "seed": seed, "pdrop": pDrop, "pskip": pSkip, "maxdelay_ms": maxDelay, "close_at_ms": closeAt})
	log.Write(b)
	log.WriteByte('\n')
	lmu.Unlock()
	addr := server.Addr()
	workers := 2 + rnd.Intn(10)
	var wg sync.WaitGroup
	var closed atomic.Bool
	if closeAt >= 0 {
		wg.Add(1)
		go func() {
			defer wg.Done()
			time.Sleep(time.Duration(closeAt) * time.Millisecond)
			closed.Store(true)
			rpc.Close()
		}()
	}
	for g := 0; g < workers; g++ {
		wg.Add(1)
		r := rand.New(rand.NewSource(rnd.Int63()))
		g := g
		go func() {
			defer wg.Done()
			for i := 0; i < 12; i++ {
				key := fmt.Sprintf("s%d-g%d-i%d", scn, g, i)
				timeout := []int{30, 100, 400}[r.Intn(3)]
				cancelAfter := -1
				if r.Intn(5) == 0 {
					cancelAfter = r.Intn(timeout)
				}
				req := tikvrpc.NewRequest(tikvrpc.CmdGet, &kvrpcpb.GetRequest{Key: []byte(key), Version: 1})
				req.Priority = []kvrpcpb.CommandPri{kvrpcpb.CommandPri_Normal, kvrpcpb.CommandPri_Low, kvrpcpb.CommandPri_High}[r.Intn(3)]
				fwd := ""
				if r.Intn(6) == 0 {
					fwd = "forward-host-" + strconv.Itoa(r.Intn(2))
					req.ForwardedHost = fwd
				}
				ctx, cancel := context.WithCancel(context.Background())
				if cancelAfter >= 0 {
					time.AfterFunc(time.Duration(cancelAfter)*time.Millisecond, cancel)
				}
				wasClosed := closed.Load()
				start := time.Now()
				resp, err := rpc.SendRequest(ctx, addr, req, time.Duration(timeout)*time.Millisecond)
				lat := time.Since(start)
				cancel()
				ev := bM{"ev": "call", "key": key, "timeout_ms": timeout, "cancel_ms": cancelAfter, "prio": int(req.Priority), "fwd": fwd != "",
					"latency_ms": int(lat / time.Millisecond), "closed_before": wasClosed, "outcome": "err", "own": false, "err": ""}
				switch {
				case err != nil:
					ev["err"] = fmt.Sprintf("%.80s", err.Error())
				case resp == nil || resp.Resp == nil:
					ev["outcome"] = "nil"
				default:
					ev["outcome"] = "resp"
					if gr, ok := resp.Resp.(*kvrpcpb.GetResponse); ok {
						ev["own"] = string(gr.Value) == "echo:"+key
						ev["value"] = fmt.Sprintf("%.60s", string(gr.Value))
					} else {
						ev["value"] = fmt.Sprintf("%T", resp.Resp)
					}
				}
				line, _ := json.Marshal(ev)
				lmu.Lock()
				log.Write(line)
				log.WriteByte('\n')
				lmu.Unlock()
			}
		}()
	}
	wg.Wait()
	if closeAt < 0 {
		rpc.Close()
	}
	lmu.Lock()
	e, _ := json.Marshal(bM{"ev": "end", "drops": atomic.LoadInt64(&drops), "skips": atomic.LoadInt64(&skips)})
	log.Write(e)
	log.WriteByte('\n')
	lmu.Unlock()
}

func TestVerifBatchRPC(t *testing.T) {
	out := os.Getenv("VERIF_OUT")
	if out == "" {
		t.Skip("VERIF_OUT not set")
	}
	seed, _ := strconv.ParseInt(os.Getenv("VERIF_SEED"), 10, 64)
	n, _ := strconv.Atoi(os.Getenv("VERIF_N"))
	if n == 0 {
		n = 20
	}
	f, err := os.Create(out)
	if err != nil {
		t.Fatal(err)
	}
	defer f.Close()
	log := bufio.NewWriterSize(f, 1<<20)
	defer log.Flush()
	var lmu sync.Mutex
	for s := 0; s < n; s++ {
		bScenario(log, &lmu, seed, s)
	}
}
