package client

// C18 harness.  Many goroutines send Get requests with distinct keys to one store through the real RPCClient's batched
// stream; the server (the repository's mock TiKV gRPC service with a scripted BatchCommands handler) echoes the key of
// every request as the value of its response, shuffles the responses of a batch, leaves some requests unanswered, delays
// batches and drops the stream at seeded points.  Callers use different priorities, time-outs, cancellation points and
// forwarding hosts; some scenarios close the client while calls are in flight.  One line per call with what it sent, what
// came back and how long it took.  BatchRPC.tla decides.

import (
	"runtime"
	"strings"
	"bufio"
	"context"
	"encoding/json"
	"errors"
	"fmt"
	"math/rand"
	"os"
	"strconv"
	"sync"
	"sync/atomic"
	"testing"
	"time"

	"github.com/pingcap/kvproto/pkg/kvrpcpb"
	"github.com/pingcap/kvproto/pkg/tikvpb"
	"github.com/tikv/client-go/v2/config"
	"github.com/tikv/client-go/v2/internal/client/mockserver"
	"github.com/pingcap/failpoint"
	"github.com/tikv/client-go/v2/tikvrpc"
	"github.com/tikv/client-go/v2/util"
	"github.com/tikv/client-go/v2/util/async"
)

type bM = map[string]interface{}

// bHeartbeat measures the largest gap between two 20 ms ticks until stop is called: a process that stood still (a frozen
// sandbox) makes every timer fire late, which is not the client's doing
func bHeartbeat() (stop func() int64) {
	var maxGap int64
	done := make(chan struct{})
	go func() {
		last := time.Now()
		t := time.NewTicker(20 * time.Millisecond)
		defer t.Stop()
		for {
			select {
			case <-done:
				return
			case now := <-t.C:
				if g := int64(now.Sub(last) / time.Millisecond); g > atomic.LoadInt64(&maxGap) {
					atomic.StoreInt64(&maxGap, g)
				}
				last = now
			}
		}
	}()
	return func() int64 { close(done); return atomic.LoadInt64(&maxGap) }
}

func bScenario(log *bufio.Writer, lmu *sync.Mutex, seed int64, scn int) {
	rnd := rand.New(rand.NewSource(seed*32452843 + int64(scn)))
	server, port := mockserver.StartMockTikvService()
	if port <= 0 {
		panic("verif-harness: mock server did not start")
	}
	defer server.Stop()
	// a "stall" scenario: the server stops reading for a while, so the client's send loop blocks in the stream and the
	// submission queue fills up behind it; callers with short time-outs must still come back in time
	stall := scn%20 == 7
	// a "stall and close" scenario: the send loop sleeps before every send, callers queue up behind it (most of them
	// asynchronous, without a deadline) and the client is closed while they are queued
	stallClose := scn%20 == 13
	pDrop := []float64{0, 0, 0.02, 0.1}[rnd.Intn(4)]
	pSkip := []float64{0, 0.02, 0.1}[rnd.Intn(3)]
	maxDelay := []int{0, 0, 2, 10, 80}[rnd.Intn(5)] // 80 ms: responses arrive after the shortest time-outs have fired
	var smu sync.Mutex
	srnd := rand.New(rand.NewSource(rnd.Int63()))
	var drops, skips int64
	var healthy atomic.Bool
	echoAll := func(req *tikvpb.BatchCommandsRequest) *tikvpb.BatchCommandsResponse {
		resp := &tikvpb.BatchCommandsResponse{}
		for i, r := range req.Requests {
			var out *tikvpb.BatchCommandsResponse_Response
			if g := r.GetGet(); g != nil {
				out = &tikvpb.BatchCommandsResponse_Response{Cmd: &tikvpb.BatchCommandsResponse_Response_Get{Get: &kvrpcpb.GetResponse{Value: append([]byte("echo:"), g.Key...)}}}
			} else {
				out = &tikvpb.BatchCommandsResponse_Response{Cmd: &tikvpb.BatchCommandsResponse_Response_Empty{Empty: &tikvpb.BatchCommandsEmptyResponse{}}}
			}
			resp.Responses = append(resp.Responses, out)
			resp.RequestIds = append(resp.RequestIds, req.RequestIds[i])
		}
		return resp
	}
	handler := func(req *tikvpb.BatchCommandsRequest) (*tikvpb.BatchCommandsResponse, error) {
		smu.Lock()
		defer smu.Unlock()

		if healthy.Load() {
			return echoAll(req), nil
		}
		if stall {
			// the stall scenario's long-time-out callers are never answered: they must come back by their time-out, counted from the call
			kept := &tikvpb.BatchCommandsRequest{}
			for i, r := range req.Requests {
				if g := r.GetGet(); g != nil && strings.HasPrefix(string(g.Key), "noanswer-") {
					continue
				}
				kept.Requests, kept.RequestIds = append(kept.Requests, r), append(kept.RequestIds, req.RequestIds[i])
			}
			req = kept
		}
		if srnd.Float64() < pDrop {
			atomic.AddInt64(&drops, 1)
			return nil, errors.New("verif: stream dropped by the server")
		}
		if maxDelay > 0 {
			time.Sleep(time.Duration(srnd.Intn(maxDelay*1000)) * time.Microsecond)
		}
		resp := &tikvpb.BatchCommandsResponse{}
		order := srnd.Perm(len(req.Requests))
		for _, i := range order {
			if srnd.Float64() < pSkip {
				atomic.AddInt64(&skips, 1)
				continue // never answered
			}
			r := req.Requests[i]
			var out *tikvpb.BatchCommandsResponse_Response
			if g := r.GetGet(); g != nil {
				out = &tikvpb.BatchCommandsResponse_Response{Cmd: &tikvpb.BatchCommandsResponse_Response_Get{Get: &kvrpcpb.GetResponse{Value: append([]byte("echo:"), g.Key...)}}}
			} else {
				out = &tikvpb.BatchCommandsResponse_Response{Cmd: &tikvpb.BatchCommandsResponse_Response_Empty{Empty: &tikvpb.BatchCommandsEmptyResponse{}}}
			}
			resp.Responses = append(resp.Responses, out)
			resp.RequestIds = append(resp.RequestIds, req.RequestIds[i])
		}
		return resp, nil
	}
	server.OnBatchCommandsRequest.Store(&handler)
	limited := false
	restore := config.UpdateGlobal(func(conf *config.Config) {
		conf.TiKVClient.MaxBatchSize = uint([]int{128, 8, 2}[rnd.Intn(3)])
		conf.TiKVClient.GrpcConnectionCount = uint(1 + rnd.Intn(2))
		conf.TiKVClient.MaxConcurrencyRequestLimit = []int64{config.DefMaxConcurrencyRequestLimit, 4, 16}[rnd.Intn(3)]
		if stall {
			conf.TiKVClient.GrpcConnectionCount = 1
			if scn%40 == 7 {
				conf.TiKVClient.MaxConcurrencyRequestLimit = config.DefMaxConcurrencyRequestLimit // every other stall scenario has the never-answered callers
			}
		}
		if stallClose {
			conf.TiKVClient.GrpcConnectionCount = 1
			conf.TiKVClient.MaxBatchSize = 128 // room in the submission queue for everybody who arrives during the stall
		}
		limited = conf.TiKVClient.MaxConcurrencyRequestLimit != config.DefMaxConcurrencyRequestLimit
	})
	defer restore()
	rpc := NewRPCClient()
	if stall {
		// the repository's own failpoint: every send of the batch send loop takes this long, so the loop stops taking
		// entries from the submission queue and the queue fills up behind it
		healthy.Store(true) // the warm-up call is answered whatever the scenario's faults are
		if _, err := rpc.SendRequest(context.Background(), server.Addr(), tikvrpc.NewRequest(tikvrpc.CmdGet, &kvrpcpb.GetRequest{Key: []byte("warmup"), Version: 1}), 5*time.Second); err != nil {
			panic("verif-harness: warm-up call failed: " + err.Error())
		}
		healthy.Store(false)
		if err := failpoint.Enable("tikvclient/mockBatchClientSendDelay", "return(2600)"); err != nil {
			panic("verif-harness: " + err.Error())
		}
		defer failpoint.Disable("tikvclient/mockBatchClientSendDelay")
	}
	closeAt := -1
	if rnd.Intn(4) == 0 {
		closeAt = 5 + rnd.Intn(40) // the client is closed after this many milliseconds, with calls in flight
	}
	if stallClose {
		healthy.Store(true)
		if _, err := rpc.SendRequest(context.Background(), server.Addr(), tikvrpc.NewRequest(tikvrpc.CmdGet, &kvrpcpb.GetRequest{Key: []byte("warmup"), Version: 1}), 5*time.Second); err != nil {
			panic("verif-harness: warm-up call failed: " + err.Error())
		}
		healthy.Store(false)
		if err := failpoint.Enable("tikvclient/mockBatchClientSendDelay", "return(300)"); err != nil {
			panic("verif-harness: " + err.Error())
		}
		defer failpoint.Disable("tikvclient/mockBatchClientSendDelay")
		closeAt = 60 + rnd.Intn(80)
		pSkip = 0
	}
	// a heartbeat: the largest gap between two 20 ms ticks tells whether the whole process stood still during the scenario
	// (a frozen sandbox makes every timer fire late: not the client's doing)
	var maxGap int64
	hbStop := make(chan struct{})
	go func() {
		last := time.Now()
		t := time.NewTicker(20 * time.Millisecond)
		defer t.Stop()
		for {
			select {
			case <-hbStop:
				return
			case now := <-t.C:
				if g := int64(now.Sub(last) / time.Millisecond); g > atomic.LoadInt64(&maxGap) {
					atomic.StoreInt64(&maxGap, g)
				}
				last = now
			}
		}
	}()
	defer close(hbStop)
	lmu.Lock()
	b, _ := json.Marshal(bM{"ev": "reset", "scn": scn, "seed": seed, "pdrop": pDrop, "pskip": pSkip, "maxdelay_ms": maxDelay, "close_at_ms": closeAt})
	log.Write(b)
	log.WriteByte('\n')
	lmu.Unlock()
	addr := server.Addr()
	workers := 2 + rnd.Intn(10)
	if stall {
		workers = 400
		closeAt = -1
	}
	if stallClose {
		workers = 40
	}
	var wg sync.WaitGroup
	var closed atomic.Bool
	if closeAt >= 0 {
		wg.Add(1)
		go func() {
			defer wg.Done()
			time.Sleep(time.Duration(closeAt) * time.Millisecond)
			closed.Store(true)
			rpc.Close()
		}()
	}
	for g := 0; g < workers; g++ {
		wg.Add(1)
		r := rand.New(rand.NewSource(rnd.Int63()))
		g := g
		go func() {
			defer wg.Done()
			for i := 0; i < 12; i++ {
				key := fmt.Sprintf("s%d-g%d-i%d", scn, g, i)
				timeout := []int{30, 100, 400}[r.Intn(3)]
				if stall {
					if i > 0 {
						break
					}
					timeout = 200
					if g%50 == 1 && !limited {
						// waits for room in the queue until the stalled send ends (2.6 s), is then sent and never answered: its 3 s
						// run from the call, not from the moment it was queued (with a concurrency limit the lost slots would starve
						// the healthy phase, so only without one)
						timeout = 3000
						key = "noanswer-" + key
					}
				}
				if stallClose {
					time.Sleep(time.Duration(g) * time.Millisecond) // arrive one by one while the send loop sleeps
				}
				cancelAfter := -1
				if r.Intn(5) == 0 {
					cancelAfter = r.Intn(timeout)
				}
				req := tikvrpc.NewRequest(tikvrpc.CmdGet, &kvrpcpb.GetRequest{Key: []byte(key), Version: 1})
				req.Priority = []kvrpcpb.CommandPri{kvrpcpb.CommandPri_Normal, kvrpcpb.CommandPri_Low, kvrpcpb.CommandPri_High}[r.Intn(3)]
				fwd := ""
				if r.Intn(6) == 0 {
					fwd = "forward-host-" + strconv.Itoa(r.Intn(2))
					req.ForwardedHost = fwd
				}
				ctx, cancel := context.WithCancel(context.Background())
				if cancelAfter >= 0 {
					time.AfterFunc(time.Duration(cancelAfter)*time.Millisecond, cancel)
				}
				wasClosed := closed.Load()
				start := time.Now()
				var resp *tikvrpc.Response
				var err error
				useAsync := !stall && r.Intn(5) == 0
				if stallClose {
					if i > 0 {
						break
					}
					useAsync = r.Intn(4) != 0
				}
				calls := 1
				if useAsync {
					// the asynchronous form: the callback must be invoked exactly once; its only deadline is the context's
					calls = 0
					actx, acancel := context.WithTimeout(ctx, time.Duration(timeout)*time.Millisecond)
					if pSkip == 0 && r.Intn(2) == 0 {
						// no deadline at all: the server answers every request it reads, so the call ends with its answer or
						// with the failure of the stream it was pending on - it cannot stay pending
						acancel()
						actx, acancel = context.WithCancel(context.Background())
						cancelAfter = -1
						timeout = 2500 // no deadline of its own: the harness waits this long (plus the slack) for the callback
						if closeAt >= 0 {
							// a request caught by Close may only be failed once the send loop has given up waiting for the closed
							// connection to become ready (dial time-out, 5 s, for every connection of the pool it tries)
							timeout = 27000
						}
					}
					rl := async.NewRunLoop()
					cb := async.NewCallback(rl, func(r *tikvrpc.Response, e error) { calls++; resp, err = r, e })
					rpc.SendRequestAsync(actx, addr, req, cb)
					wctx, wcancel := context.WithTimeout(context.Background(), time.Duration(timeout+2500)*time.Millisecond)
					for calls == 0 {
						if _, e := rl.Exec(wctx); e != nil {
							break
						}
					}
					wcancel()
					acancel()
				} else {
					resp, err = rpc.SendRequest(ctx, addr, req, time.Duration(timeout)*time.Millisecond)
				}
				lat := time.Since(start)
				cancel()
				ev := bM{"ev": "call", "key": key, "timeout_ms": timeout, "cancel_ms": cancelAfter, "prio": int(req.Priority), "fwd": fwd != "",
					"latency_ms": int(lat / time.Millisecond), "closed_before": wasClosed, "outcome": "err", "own": false, "err": "", "async": useAsync, "returns": calls, "healthy": false}
				if calls == 0 {
					ev["outcome"] = "never"
					if os.Getenv("VERIF_DUMP") != "" {
						buf := make([]byte, 1<<22)
						txt := string(buf[:runtime.Stack(buf, true)])
						rpc.RLock()
						for a, pool := range rpc.connPools {
							bc := pool.batchConn
							txt += fmt.Sprintf("\nPOOL %s queue=%d builder=%d\n", a, len(bc.batchCommandsCh), bc.reqBuilder.len())
							for i, c := range bc.batchCommandsClients {
								txt += fmt.Sprintf(" client %d sent=%d epoch=%d closed=%d lock=%d\n", i, c.sent.Load(), atomic.LoadUint64(&c.epoch), atomic.LoadInt32(&c.closed), 0)
								c.batched.Range(func(k, v interface{}) bool {
									e := v.(*batchCommandsEntry)
									key := ""
									if g := e.req.GetGet(); g != nil {
										key = string(g.Key)
									}
									txt += fmt.Sprintf("   pending id=%v key=%s fwd=%q canceled=%d async=%v age=%v\n", k, key, e.forwardedHost, atomic.LoadInt32(&e.canceled), e.async(), time.Since(e.reqArriveAt))
									return true
								})
							}
						}
						rpc.RUnlock()
						os.WriteFile(os.Getenv("VERIF_DUMP"), []byte(txt), 0o644)
					}
				}
				switch {
				case calls == 0:
				case err != nil:
					ev["err"] = fmt.Sprintf("%.80s", err.Error())
				case resp == nil || resp.Resp == nil:
					ev["outcome"] = "nil"
				default:
					ev["outcome"] = "resp"
					if gr, ok := resp.Resp.(*kvrpcpb.GetResponse); ok {
						ev["own"] = string(gr.Value) == "echo:"+key
						ev["value"] = fmt.Sprintf("%.60s", string(gr.Value))
					} else {
						ev["value"] = fmt.Sprintf("%T", resp.Resp)
					}
				}
				line, _ := json.Marshal(ev)
				lmu.Lock()
				log.Write(line)
				log.WriteByte('\n')
				lmu.Unlock()
			}
		}()
	}
	wg.Wait()
	if closeAt < 0 {
		// a healthy phase: the server answers everything at once; a call with a generous time-out must get its answer
		// (a slot or an entry leaked during the faulty phase would starve it)
		if stall {
			failpoint.Disable("tikvclient/mockBatchClientSendDelay")
			time.Sleep(2700 * time.Millisecond) // the send that was being delayed ends
		}
		healthy.Store(true)
		time.Sleep(30 * time.Millisecond)
		for i := 0; i < 12; i++ {
			key := fmt.Sprintf("s%d-healthy-i%d", scn, i)
			req := tikvrpc.NewRequest(tikvrpc.CmdGet, &kvrpcpb.GetRequest{Key: []byte(key), Version: 1})
			start := time.Now()
			resp, err := rpc.SendRequest(context.Background(), addr, req, 1500*time.Millisecond)
			ev := bM{"ev": "call", "key": key, "timeout_ms": 1500, "cancel_ms": -1, "prio": 0, "fwd": false, "latency_ms": int(time.Since(start) / time.Millisecond),
				"closed_before": false, "outcome": "err", "own": false, "err": "", "async": false, "returns": 1, "healthy": pSkip == 0} // a request the server never answers keeps its slot for good: not a listed fault
			if err != nil {
				ev["err"] = fmt.Sprintf("%.80s", err.Error())
			} else if resp != nil && resp.Resp != nil {
				ev["outcome"] = "resp"
				if gr, ok := resp.Resp.(*kvrpcpb.GetResponse); ok {
					ev["own"] = string(gr.Value) == "echo:"+key
					ev["value"] = fmt.Sprintf("%.60s", string(gr.Value))
				}
			}
			line, _ := json.Marshal(ev)
			lmu.Lock()
			log.Write(line)
			log.WriteByte('\n')
			lmu.Unlock()
		}
		rpc.Close()
	}
	lmu.Lock()
	e, _ := json.Marshal(bM{"ev": "end", "drops": atomic.LoadInt64(&drops), "skips": atomic.LoadInt64(&skips), "max_gap_ms": atomic.LoadInt64(&maxGap)})
	log.Write(e)
	log.WriteByte('\n')
	lmu.Unlock()
}

func TestVerifBatchRPC(t *testing.T) {
	out := os.Getenv("VERIF_OUT")
	if out == "" {
		t.Skip("VERIF_OUT not set")
	}
	seed, _ := strconv.ParseInt(os.Getenv("VERIF_SEED"), 10, 64)
	n, _ := strconv.Atoi(os.Getenv("VERIF_N"))
	if n == 0 {
		n = 20
	}
	util.EnableFailpoints()
	f, err := os.Create(out)
	if err != nil {
		t.Fatal(err)
	}
	defer f.Close()
	log := bufio.NewWriterSize(f, 1<<20)
	defer log.Flush()
	var lmu sync.Mutex
	only, hasOnly := os.LookupEnv("VERIF_ONLY") // debugging aid: run one scenario (repeatedly)
	for s := 0; s < n; s++ {
		if hasOnly {
			o, _ := strconv.Atoi(only)
			bScenario(log, &lmu, seed, o)
			continue
		}
		bScenario(log, &lmu, seed, s)
	}
}
