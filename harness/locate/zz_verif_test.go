package locate

// C09 harness.  Seeded walks over a mocktikv cluster (splits, merges, leader transfers, peer removal/addition, store
// stop/start) interleaved with every lookup API of the real RegionCache, cache invalidation / TTL expiry, request sends,
// and a PD wrapper that may answer from an older snapshot of the cluster (stale or reordered PD answers).  After every
// step the ordered index of the cache is dumped (white box) together with PD's truth.  Each walk ends with a quiescent
// phase (no more changes, fresh PD) in which a request for every key must reach the store leading the region that holds it.
// A second entry point enumerates (layout, warm subset, query) triples for the range lookups.
// Trace_RegionCache.tla decides.

import (
	"bufio"
	"bytes"
	"context"
	"encoding/json"
	"fmt"
	"math/rand"
	"os"
	"sort"
	"strconv"
	"sync"
	"sync/atomic"
	"testing"
	"time"

	"github.com/pingcap/failpoint"
	"github.com/pingcap/kvproto/pkg/kvrpcpb"
	"github.com/pingcap/kvproto/pkg/metapb"
	"github.com/tikv/client-go/v2/config/retry"
	"github.com/tikv/client-go/v2/internal/client"
	"github.com/tikv/client-go/v2/internal/mockstore/mocktikv"
	"github.com/tikv/client-go/v2/kv"
	"github.com/tikv/client-go/v2/oracle"
	"github.com/tikv/client-go/v2/tikvrpc"
	"github.com/tikv/client-go/v2/util"
	"github.com/tikv/client-go/v2/util/async"
	pd "github.com/tikv/pd/client"
	"github.com/tikv/pd/client/clients/router"
	"github.com/tikv/pd/client/opt"
	"github.com/tikv/pd/client/pkg/caller"
)

type vM = map[string]interface{}

const vN = 7 // key points 1..vN; 0 is the empty key

var vKeyPool = []string{"a", "a\x00", "ab", "b", "b\xff", "c", "cc", "d", "k", "k0", "k00", "m", "t\x00\x01", "z", "\xff"}

type vSnapRegion struct {
	meta   *metapb.Region
	leader *metapb.Peer
}

type vWorld struct {
	rnd     *rand.Rand
	keys    [][]byte
	idx     map[string]int
	cluster *mocktikv.Cluster
	store   mocktikv.MVCCStore
	pd      *vPD
	cache   *RegionCache
	rpc     *vRPC
	log     *bufio.Writer
	snaps   [][]vSnapRegion
	stale   float64
	usedOld bool
	loads   int // region-returning PD calls during the current lookup / send: each may install descriptions, removing others first
	stores  []uint64
	stopped map[uint64]bool
	liveMu  sync.Mutex
}

func (w *vWorld) emit(m vM) {
	b, err := json.Marshal(m)
	if err != nil {
		panic(err)
	}
	w.log.Write(b)
	w.log.WriteByte('\n')
}

func (w *vWorld) kidx(k []byte) int {
	if len(k) == 0 {
		return 0
	}
	if i, ok := w.idx[string(k)]; ok {
		return i
	}
	return 99
}

func (w *vWorld) key(i int) []byte {
	if i <= 0 {
		return nil
	}
	return w.keys[i]
}

// ---- PD wrapper --------------------------------------------------------------------------------
type vPD struct {
	pd.Client
	w *vWorld
}

// the region cache keeps pdClient.WithCallerComponent(...): hand out the wrapper itself, not the wrapped client
func (p *vPD) WithCallerComponent(caller.Component) pd.Client { return p }

func (w *vWorld) truthSnap() []vSnapRegion {
	var out []vSnapRegion
	for _, r := range w.cluster.GetAllRegions() {
		meta, leaderID := w.cluster.GetRegion(r.Meta.Id)
		var lp *metapb.Peer
		for _, p := range meta.Peers {
			if p.Id == leaderID {
				lp = p
			}
		}
		out = append(out, vSnapRegion{meta: meta, leader: lp})
	}
	sort.Slice(out, func(i, j int) bool { return bytes.Compare(out[i].meta.StartKey, out[j].meta.StartKey) < 0 })
	return out
}

// old returns an older snapshot to answer from, or nil for a fresh answer
func (p *vPD) old() []vSnapRegion {
	w := p.w
	if len(w.snaps) == 0 || w.rnd.Float64() >= w.stale {
		return nil
	}
	w.usedOld = true
	return w.snaps[w.rnd.Intn(len(w.snaps))]
}

func snapContains(r vSnapRegion, key []byte) bool {
	return bytes.Compare(r.meta.StartKey, key) <= 0 && (len(r.meta.EndKey) == 0 || bytes.Compare(key, r.meta.EndKey) < 0)
}

func toRouter(r vSnapRegion) *router.Region {
	return &router.Region{Meta: r.meta, Leader: r.leader}
}

func (p *vPD) GetRegion(ctx context.Context, key []byte, opts ...opt.GetRegionOption) (*router.Region, error) {
	p.w.loads++
	if s := p.old(); s != nil {
		for _, r := range s {
			if snapContains(r, key) {
				return toRouter(r), nil
			}
		}
	}
	return p.Client.GetRegion(ctx, key, opts...)
}

func (p *vPD) GetPrevRegion(ctx context.Context, key []byte, opts ...opt.GetRegionOption) (*router.Region, error) {
	p.w.loads++
	if s := p.old(); s != nil {
		for _, r := range s {
			if len(key) > 0 && bytes.Equal(r.meta.EndKey, key) || (bytes.Compare(r.meta.StartKey, key) < 0 && (len(r.meta.EndKey) == 0 || bytes.Compare(key, r.meta.EndKey) <= 0)) {
				return toRouter(r), nil
			}
		}
	}
	return p.Client.GetPrevRegion(ctx, key, opts...)
}

func (p *vPD) GetRegionByID(ctx context.Context, id uint64, opts ...opt.GetRegionOption) (*router.Region, error) {
	p.w.loads++
	if s := p.old(); s != nil {
		for _, r := range s {
			if r.meta.Id == id {
				return toRouter(r), nil
			}
		}
	}
	return p.Client.GetRegionByID(ctx, id, opts...)
}

func snapScan(s []vSnapRegion, start, end []byte, limit int) []*router.Region {
	var out []*router.Region
	for _, r := range s {
		if len(r.meta.EndKey) > 0 && bytes.Compare(r.meta.EndKey, start) <= 0 {
			continue
		}
		if len(end) > 0 && bytes.Compare(r.meta.StartKey, end) >= 0 {
			break
		}
		out = append(out, toRouter(r))
		if limit > 0 && len(out) >= limit {
			break
		}
	}
	return out
}

func (p *vPD) ScanRegions(ctx context.Context, start, end []byte, limit int, opts ...opt.GetRegionOption) ([]*router.Region, error) {
	p.w.loads++
	if s := p.old(); s != nil {
		return snapScan(s, start, end, limit), nil
	}
	return p.Client.ScanRegions(ctx, start, end, limit, opts...)
}

func (p *vPD) BatchScanRegions(ctx context.Context, ranges []router.KeyRange, limit int, opts ...opt.GetRegionOption) ([]*router.Region, error) {
	p.w.loads++
	if s := p.old(); s != nil {
		var out []*router.Region
		for _, kr := range ranges {
			for _, r := range snapScan(s, kr.StartKey, kr.EndKey, limit) {
				if len(out) > 0 && out[len(out)-1].Meta.Id == r.Meta.Id {
					continue
				}
				out = append(out, r)
			}
		}
		return out, nil
	}
	return p.Client.BatchScanRegions(ctx, ranges, limit, opts...)
}

// ---- RPC wrapper: remembers where the last accepted request went ------------------------------------
type vRPC struct {
	inner     client.Client
	w         *vWorld
	lastAddr  string
	lastOK    bool
	attempts  int64
	misrouted string
}

func (g *vRPC) Close() error                                  { return g.inner.Close() }
func (g *vRPC) CloseAddr(addr string) error                   { return g.inner.CloseAddr(addr) }
func (g *vRPC) SetEventListener(l client.ClientEventListener) { g.inner.SetEventListener(l) }
func (g *vRPC) SendRequestAsync(ctx context.Context, addr string, req *tikvrpc.Request, cb async.Callback[*tikvrpc.Response]) {
	resp, err := g.SendRequest(ctx, addr, req, 0)
	cb.Invoke(resp, err)
}
func (g *vRPC) SendRequest(ctx context.Context, addr string, req *tikvrpc.Request, timeout time.Duration) (*tikvrpc.Response, error) {
	atomic.AddInt64(&g.attempts, 1)
	resp, err := g.inner.SendRequest(ctx, addr, req, timeout)
	g.lastAddr, g.lastOK = addr, false
	if err == nil && resp != nil && resp.Resp != nil {
		if re, e2 := resp.GetRegionError(); e2 == nil && re == nil {
			g.lastOK = true
			if req.Type == tikvrpc.CmdRawGet {
				// the mock does not check key-in-region for raw point requests: do it here
				if r, _ := g.w.cluster.GetRegion(req.Context.GetRegionId()); r != nil {
					k := req.RawGet().Key
					if !(bytes.Compare(r.StartKey, k) <= 0 && (len(r.EndKey) == 0 || bytes.Compare(k, r.EndKey) < 0)) {
						g.misrouted = fmt.Sprintf("key %d accepted by region [%d,%d)", g.w.kidx(k), g.w.kidx(r.StartKey), g.w.kidx(r.EndKey))
					}
				}
			}
		}
	}
	return resp, err
}

// ---- topology -------------------------------------------------------------------------------------
func (w *vWorld) bounds() []int {
	var out []int
	for _, r := range w.cluster.GetAllRegions() {
		if len(r.Meta.StartKey) > 0 {
			out = append(out, w.kidx(r.Meta.StartKey))
		}
	}
	sort.Ints(out)
	return out
}

func (w *vWorld) split(b int) {
	key := w.keys[b]
	r, _, _, _ := w.cluster.GetRegionByKey(key)
	if bytes.Equal(r.StartKey, key) {
		return
	}
	ids := w.cluster.AllocIDs(len(r.Peers) + 1)
	w.cluster.SplitRaw(r.Id, ids[0], key, ids[1:], ids[1])
	w.emit(vM{"ev": "topo", "kind": "split", "at": b})
}

func (w *vWorld) merge(b int) {
	key := w.keys[b]
	right, _, _, _ := w.cluster.GetRegionByKey(key)
	if !bytes.Equal(right.StartKey, key) {
		return
	}
	left, _, _, _ := w.cluster.GetPrevRegionByKey(key)
	if left == nil {
		return
	}
	w.cluster.Merge(left.Id, right.Id)
	w.emit(vM{"ev": "topo", "kind": "merge", "at": b})
}

func (w *vWorld) randRegion() *metapb.Region {
	rs := w.cluster.GetAllRegions()
	sort.Slice(rs, func(i, j int) bool { return rs[i].Meta.Id < rs[j].Meta.Id })
	m, _ := w.cluster.GetRegion(rs[w.rnd.Intn(len(rs))].Meta.Id)
	return m
}

func (w *vWorld) topo() {
	switch w.rnd.Intn(12) {
	case 0, 1, 2:
		w.split(2 + w.rnd.Intn(vN-1))
	case 10, 11:
		w.peerChange()
	case 3, 4:
		if bs := w.bounds(); len(bs) > 0 {
			w.merge(bs[w.rnd.Intn(len(bs))])
		}
	case 5, 6:
		r := w.randRegion()
		_, leader := w.cluster.GetRegion(r.Id)
		var cands []uint64
		for _, p := range r.Peers {
			if p.Id != leader && !w.stopped[p.StoreId] {
				cands = append(cands, p.Id)
			}
		}
		if len(cands) > 0 {
			w.cluster.ChangeLeader(r.Id, cands[w.rnd.Intn(len(cands))])
			w.emit(vM{"ev": "topo", "kind": "leader", "at": w.kidx(r.StartKey)})
		}
	case 7:
		w.peerChange()
	case 8: // stop a store that leads nothing we cannot move... (at most one stopped at a time)
		if len(w.stopped) == 0 {
			s := w.stores[w.rnd.Intn(len(w.stores))]
			w.cluster.StopStore(s)
			w.liveMu.Lock()
			w.stopped[s] = true
			w.liveMu.Unlock()
			w.emit(vM{"ev": "topo", "kind": "stopstore", "store": s})
		}
	case 9:
		w.startAll()
	}
}

// remove a follower peer, or add one back on a store without a peer (the region's conf version changes)
func (w *vWorld) peerChange() { w.peerChangeOn(w.randRegion()) }

func (w *vWorld) peerChangeOn(r *metapb.Region) {
	_, leader := w.cluster.GetRegion(r.Id)
	if len(r.Peers) >= 3 {
		for _, p := range r.Peers {
			if p.Id != leader {
				w.cluster.RemovePeer(r.Id, p.Id)
				w.emit(vM{"ev": "topo", "kind": "removepeer", "at": w.kidx(r.StartKey)})
				break
			}
		}
	} else {
		has := map[uint64]bool{}
		for _, p := range r.Peers {
			has[p.StoreId] = true
		}
		for _, s := range w.stores {
			if !has[s] {
				w.cluster.AddPeer(r.Id, s, w.cluster.AllocID())
				w.emit(vM{"ev": "topo", "kind": "addpeer", "at": w.kidx(r.StartKey)})
				break
			}
		}
	}
}

func (w *vWorld) startAll() {
	for s := range w.stopped {
		w.cluster.StartStore(s)
		w.liveMu.Lock()
		delete(w.stopped, s)
		w.liveMu.Unlock()
		w.emit(vM{"ev": "topo", "kind": "startstore", "store": s})
	}
}

// ---- observation -------------------------------------------------------------------------------------
func (w *vWorld) cacheDump() []vM {
	c := w.cache
	now := time.Now().Unix()
	out := []vM{}
	c.mu.RLock()
	c.mu.sorted.b.Ascend(func(item *btreeItem) bool {
		r := item.cachedRegion
		expired := atomic.LoadInt64(&r.ttl) < now
		reload := r.checkSyncFlags(needReloadOnAccess | needDelayedReloadReady)
		v := r.VerID()
		out = append(out, vM{"id": v.GetID(), "ver": v.GetVer(), "conf": v.GetConfVer(), "s": w.kidx(r.StartKey()), "e": w.kidx(r.EndKey()), "expired": expired, "reload": reload})
		return true
	})
	c.mu.RUnlock()
	return out
}

func (w *vWorld) truthDump() []vM {
	out := []vM{}
	for _, r := range w.truthSnap() {
		ls := uint64(0)
		if r.leader != nil {
			ls = r.leader.StoreId
		}
		out = append(out, vM{"id": r.meta.Id, "ver": r.meta.RegionEpoch.Version, "conf": r.meta.RegionEpoch.ConfVer, "s": w.kidx(r.meta.StartKey), "e": w.kidx(r.meta.EndKey), "leader": ls})
	}
	return out
}

func (w *vWorld) locM(l *KeyLocation) vM {
	if l == nil {
		return vM{"id": 0, "ver": 0, "conf": 0, "s": -1, "e": -1}
	}
	return vM{"id": l.Region.GetID(), "ver": l.Region.GetVer(), "conf": l.Region.GetConfVer(), "s": w.kidx(l.StartKey), "e": w.kidx(l.EndKey)}
}

func (w *vWorld) locsM(ls []*KeyLocation) []vM {
	out := []vM{}
	for _, l := range ls {
		out = append(out, w.locM(l))
	}
	return out
}

func (w *vWorld) regionsM(rs []*Region) []vM {
	out := []vM{}
	for _, r := range rs {
		v := r.VerID()
		out = append(out, vM{"id": v.GetID(), "ver": v.GetVer(), "conf": v.GetConfVer(), "s": w.kidx(r.StartKey()), "e": w.kidx(r.EndKey())})
	}
	return out
}

func (w *vWorld) finish(ev vM, err error) {
	ev["ev"] = "lookup"
	ev["err"] = ""
	if err != nil {
		ev["err"] = fmt.Sprintf("%T: %s", err, err.Error()) // some errors of the repository have an empty message
	}
	ev["stale"] = w.usedOld
	ev["loads"] = w.loads
	ev["cache"] = w.cacheDump()
	ev["truth"] = w.truthDump()
	w.emit(ev)
}

func (w *vWorld) bo() *retry.Backoffer {
	return retry.NewBackofferWithVars(context.Background(), 20000, nil)
}

func (w *vWorld) randRange() (int, int) {
	s, e := w.rnd.Intn(vN+1), w.rnd.Intn(vN+1)
	if e != 0 && s >= e {
		if w.rnd.Intn(2) == 0 {
			e = 0
		} else {
			s, e = e-1, s+1
			if e > vN {
				e = 0
			}
		}
	}
	return s, e
}

func (w *vWorld) lookup() {
	w.usedOld, w.loads = false, 0
	c := w.cache
	switch w.rnd.Intn(12) {
	case 0, 1:
		k := 1 + w.rnd.Intn(vN)
		loc, err := c.LocateKey(w.bo(), w.keys[k])
		w.finish(vM{"api": "LocateKey", "k": k, "loc": w.locM(loc)}, err)
	case 2:
		k := 1 + w.rnd.Intn(vN)
		loc, err := c.LocateEndKey(w.bo(), w.keys[k])
		w.finish(vM{"api": "LocateEndKey", "k": k, "loc": w.locM(loc)}, err)
	case 3:
		k := 1 + w.rnd.Intn(vN)
		loc := c.TryLocateKey(w.keys[k])
		w.finish(vM{"api": "TryLocateKey", "k": k, "loc": w.locM(loc), "found": loc != nil}, nil)
	case 4:
		r := w.randRegion()
		loc, err := c.LocateRegionByID(w.bo(), r.Id)
		w.finish(vM{"api": "LocateRegionByID", "id": r.Id, "loc": w.locM(loc)}, err)
	case 5, 6:
		s, e := w.randRange()
		locs, err := c.LocateKeyRange(w.bo(), w.key(s), w.key(e))
		w.finish(vM{"api": "LocateKeyRange", "ranges": []vM{{"s": s, "e": e}}, "locs": w.locsM(locs)}, err)
	case 7, 8:
		w.batchLocate(w.randRanges())
	case 9:
		n := 1 + w.rnd.Intn(6)
		var ks [][]byte
		var is []int
		for i := 0; i < n; i++ {
			k := 1 + w.rnd.Intn(vN)
			is, ks = append(is, k), append(ks, w.keys[k])
		}
		groups, first, err := c.GroupKeysByRegion(w.bo(), ks, nil)
		gs := []vM{}
		for ver, gk := range groups {
			g := vM{"id": ver.GetID(), "ver": ver.GetVer(), "conf": ver.GetConfVer(), "s": -1, "e": -1, "keys": w.kidxs(gk)}
			if r := c.GetCachedRegionWithRLock(ver); r != nil {
				g["s"], g["e"] = w.kidx(r.StartKey()), w.kidx(r.EndKey())
			}
			gs = append(gs, g)
		}
		sort.Slice(gs, func(i, j int) bool { return gs[i]["id"].(uint64) < gs[j]["id"].(uint64) })
		w.finish(vM{"api": "GroupKeysByRegion", "keys": is, "groups": gs, "first": first.GetID()}, err)
	case 10:
		s, e := w.randRange()
		rs, err := c.LoadRegionsInKeyRange(w.bo(), w.key(s), w.key(e))
		w.finish(vM{"api": "LoadRegionsInKeyRange", "ranges": []vM{{"s": s, "e": e}}, "locs": w.regionsM(rs)}, err)
	default:
		s, e := w.randRange()
		ids, err := c.ListRegionIDsInKeyRange(w.bo(), w.key(s), w.key(e))
		w.finish(vM{"api": "ListRegionIDsInKeyRange", "ranges": []vM{{"s": s, "e": e}}, "ids": ids}, err)
	}
}

func (w *vWorld) kidxs(ks [][]byte) []int {
	out := []int{}
	for _, k := range ks {
		out = append(out, w.kidx(k))
	}
	return out
}

// sorted, non-overlapping ranges (what the callers of BatchLocateKeyRanges pass)
func (w *vWorld) randRanges() [][2]int {
	n := 1 + w.rnd.Intn(3)
	var pts []int
	for len(pts) < 2*n {
		pts = append(pts, w.rnd.Intn(vN+1))
	}
	sort.Ints(pts)
	var out [][2]int
	for i := 0; i+1 < len(pts); i += 2 {
		s, e := pts[i], pts[i+1]
		if s == e {
			continue
		}
		out = append(out, [2]int{s, e})
	}
	if w.rnd.Intn(3) == 0 { // the last range is unbounded
		last := 1 + w.rnd.Intn(vN)
		if len(out) > 0 {
			last = out[len(out)-1][1]
			if last == 0 {
				last = vN
			}
		}
		if len(out) == 0 || out[len(out)-1][1] != 0 {
			out = append(out, [2]int{last, 0})
		}
	}
	if len(out) == 0 {
		out = append(out, [2]int{1, 0})
	}
	return out
}

func (w *vWorld) batchLocate(rs [][2]int) {
	var krs []kv.KeyRange
	rm := []vM{}
	for _, r := range rs {
		krs = append(krs, kv.KeyRange{StartKey: w.key(r[0]), EndKey: w.key(r[1])})
		rm = append(rm, vM{"s": r[0], "e": r[1]})
	}
	locs, err := w.cache.BatchLocateKeyRanges(w.bo(), krs)
	w.finish(vM{"api": "BatchLocateKeyRanges", "ranges": rm, "locs": w.locsM(locs)}, err)
}

func (w *vWorld) cacheOp() {
	c := w.cache
	var rs []*Region
	c.mu.RLock()
	c.mu.sorted.b.Ascend(func(item *btreeItem) bool { rs = append(rs, item.cachedRegion); return true })
	c.mu.RUnlock()
	if len(rs) == 0 {
		return
	}
	r := rs[w.rnd.Intn(len(rs))]
	switch w.rnd.Intn(3) {
	case 0:
		c.InvalidateCachedRegion(r.VerID())
		w.emit(vM{"ev": "cacheop", "kind": "invalidate", "id": r.GetID(), "cache": w.cacheDump()})
	case 1:
		// what a failed send or a store slow-down does: the entry must be reloaded when it is next used
		r.setSyncFlags(needReloadOnAccess)
		w.emit(vM{"ev": "cacheop", "kind": "needreload", "id": r.GetID(), "cache": w.cacheDump()})
	default:
		atomic.StoreInt64(&r.ttl, 0)
		w.emit(vM{"ev": "cacheop", "kind": "expire", "id": r.GetID(), "cache": w.cacheDump()})
	}
}

// one request for key k, retried like rawkv.Client.sendReq does
func (w *vWorld) send(k int, final bool) {
	w.usedOld, w.loads = false, 0
	// calm: every store is up, the client knows it (its health-check loop has caught up), and PD answers freshly
	calm := len(w.stopped) == 0 && w.stale == 0
	for _, st := range w.cache.stores.filter(nil, func(*Store) bool { return true }) {
		calm = calm && st.getLivenessState() == reachable
	}
	// under calm conditions a request needs a handful of attempts at most: a small budget turns wasted retries into a failure
	budget := 20000
	if calm || final {
		budget = 600
	}
	bo := retry.NewBackofferWithVars(context.Background(), budget, nil)
	sender := NewRegionRequestSender(w.cache, w.rpc, oracle.NoopReadTSValidator{})
	w.rpc.misrouted = ""
	n0 := atomic.LoadInt64(&w.rpc.attempts)
	ok, errs, tries := false, "", 0
	rerrs := []string{}
	for tries = 1; tries <= 30; tries++ {
		loc, err := w.cache.LocateKey(bo, w.keys[k])
		if err != nil {
			errs = err.Error()
			break
		}
		req := tikvrpc.NewRequest(tikvrpc.CmdRawGet, &kvrpcpb.RawGetRequest{Key: w.keys[k]})
		resp, _, err := sender.SendReq(bo, req, loc.Region, client.ReadTimeoutShort)
		if err != nil {
			errs = err.Error()
			break
		}
		re, err := resp.GetRegionError()
		if err != nil {
			errs = err.Error()
			break
		}
		if re != nil {
			if len(rerrs) < 6 {
				rerrs = append(rerrs, fmt.Sprintf("%s@%s[%d,%d)v%d", re.String(), w.rpc.lastAddr, w.kidx(loc.StartKey), w.kidx(loc.EndKey), loc.Region.GetVer()))
			}
			if err := bo.Backoff(retry.BoRegionMiss, fmt.Errorf("%s", re.String())); err != nil {
				errs = err.Error()
				break
			}
			continue
		}
		ok = true
		break
	}
	leader, lstore := uint64(0), ""
	r, p, _, _ := w.cluster.GetRegionByKey(w.keys[k])
	if r != nil && p != nil {
		leader = p.StoreId
		if s := w.cluster.GetStore(p.StoreId); s != nil {
			lstore = s.Address
		}
	}
	w.emit(vM{"ev": "send", "k": k, "ok": ok, "err": errs, "tries": tries, "rpcs": atomic.LoadInt64(&w.rpc.attempts) - n0, "addr": w.rpc.lastAddr, "leader": leader,
		"leaderaddr": lstore, "final": final, "calm": calm, "stale": w.usedOld, "loads": w.loads, "rerrs": rerrs, "misrouted": w.rpc.misrouted, "cache": w.cacheDump(), "truth": w.truthDump()})
}

func vNewWorld(rnd *rand.Rand, log *bufio.Writer) *vWorld {
	w := &vWorld{rnd: rnd, log: log, idx: map[string]int{}, stopped: map[uint64]bool{}}
	perm := rnd.Perm(len(vKeyPool))[:vN]
	ks := make([]string, 0, vN)
	for _, p := range perm {
		ks = append(ks, vKeyPool[p])
	}
	sort.Strings(ks)
	w.keys = make([][]byte, vN+1)
	for i, k := range ks {
		w.keys[i+1] = []byte(k)
		w.idx[k] = i + 1
	}
	w.store = mocktikv.MustNewMVCCStore()
	w.cluster = mocktikv.NewCluster(w.store)
	w.stores, _, _, _ = mocktikv.BootstrapWithMultiStores(w.cluster, 3)
	w.pd = &vPD{Client: mocktikv.NewPDClient(w.cluster), w: w}
	w.cache = NewRegionCache(w.pd)
	w.rpc = &vRPC{inner: mocktikv.NewRPCClient(w.cluster, w.store, nil), w: w}
	// store liveness is normally probed over gRPC: answer from the cluster's state instead
	w.cache.stores.setMockRequestLiveness(func(ctx context.Context, s *Store) livenessState {
		w.liveMu.Lock()
		defer w.liveMu.Unlock()
		if w.stopped[s.storeID] {
			return unreachable
		}
		return reachable
	})
	return w
}

func (w *vWorld) close() {
	w.cache.Close()
	w.rpc.Close()
	w.store.Close()
}

func vWalk(log *bufio.Writer, seed int64, scn int, steps int) {
	rnd := rand.New(rand.NewSource(seed*7919 + int64(scn)))
	w := vNewWorld(rnd, log)
	defer w.close()
	w.stale = []float64{0, 0, 0.2, 0.5}[rnd.Intn(4)]
	w.emit(vM{"ev": "reset", "scn": scn, "seed": seed, "mode": "walk", "nkeys": vN, "stale": w.stale})
	for n := rnd.Intn(5); n > 0; n-- {
		w.split(2 + rnd.Intn(vN-1))
	}
	for i := 0; i < steps; i++ {
		switch x := rnd.Intn(20); {
		case x < 5:
			// PD may later answer from the state before this change (an older snapshot)
			if rnd.Intn(2) == 0 {
				w.snaps = append(w.snaps, w.truthSnap())
			}
			w.topo()
		case x < 6:
			w.cacheOp()
		case x < 7:
			// a change to the very region a request is about to use: the entry is cached, the region then changes
			// (peers, leader, split, merge with its neighbour), and the request follows at once
			k := 1 + rnd.Intn(vN)
			if _, err := w.cache.LocateKey(w.bo(), w.keys[k]); err == nil {
				reg, _, _, _ := w.cluster.GetRegionByKey(w.keys[k])
				meta, leader := w.cluster.GetRegion(reg.Id)
				switch rnd.Intn(4) {
				case 0:
					w.peerChangeOn(meta)
				case 1:
					for _, p := range meta.Peers {
						if p.Id != leader && !w.stopped[p.StoreId] {
							w.cluster.ChangeLeader(meta.Id, p.Id)
							w.emit(vM{"ev": "topo", "kind": "leader", "at": w.kidx(meta.StartKey)})
							break
						}
					}
				case 2:
					if k >= 2 {
						w.split(k)
					}
				default:
					if len(meta.StartKey) > 0 {
						w.merge(w.kidx(meta.StartKey))
					}
				}
				w.send(k, false)
			}
		case x < 10:
			w.send(1+rnd.Intn(vN), false)
		default:
			w.lookup()
		}
	}
	// quiescence: no more changes, all stores up, PD answers fresh
	w.startAll()
	w.stale = 0
	// the client learns that a store is back from its health-check loop (1s ticks of real time): wait for it
	for dl := time.Now().Add(5 * time.Second); time.Now().Before(dl); time.Sleep(20 * time.Millisecond) {
		all := true
		for _, st := range w.cache.stores.filter(nil, func(*Store) bool { return true }) {
			all = all && st.getLivenessState() == reachable
		}
		if all {
			break
		}
	}
	for k := 1; k <= vN; k++ {
		w.send(k, true)
	}
	w.lookup()
}

// enumerated (layout, warm subset, query) triples for the range lookups: the cache is warmed with LocateKey on a subset of
// the regions of a static layout, then one range query is asked
func vEnum(log *bufio.Writer, seed int64, div int) {
	const n = 5 // key points 1..5 of the universe are used
	cnt := 0
	rnd := rand.New(rand.NewSource(seed))
	for lay := 0; lay < 1<<(n-1); lay++ {
		var splits []int
		for b := 2; b <= n; b++ {
			if lay&(1<<(b-2)) != 0 {
				splits = append(splits, b)
			}
		}
		starts := append([]int{1}, splits...) // a key inside every region (region i starts at starts[i], the first holds key 1)
		for warm := 0; warm < 1<<len(starts); warm++ {
			for _, q := range vQueries(n) {
				cnt++
				if div > 1 && (cnt+int(seed))%div != 0 {
					continue
				}
				w := vNewWorld(rnd, log)
				w.emit(vM{"ev": "reset", "scn": cnt, "seed": seed, "mode": "enum", "nkeys": vN, "stale": 0, "layout": splits, "warm": warm})
				for _, b := range splits {
					w.split(b)
				}
				for i, s := range starts {
					if warm&(1<<i) != 0 {
						w.cache.LocateKey(w.bo(), w.keys[s])
					}
				}
				w.emit(vM{"ev": "cacheop", "kind": "warm", "id": 0, "cache": w.cacheDump()})
				w.usedOld, w.loads = false, 0
				if len(q) == 1 && q[0][2] == 1 {
					locs, err := w.cache.LocateKeyRange(w.bo(), w.key(q[0][0]), w.key(q[0][1]))
					w.finish(vM{"api": "LocateKeyRange", "ranges": []vM{{"s": q[0][0], "e": q[0][1]}}, "locs": w.locsM(locs)}, err)
				} else {
					var rs [][2]int
					for _, r := range q {
						rs = append(rs, [2]int{r[0], r[1]})
					}
					w.batchLocate(rs)
				}
				w.close()
			}
		}
	}
}

// queries: single ranges (through both APIs) and pairs / triples of disjoint ascending ranges
func vQueries(n int) [][][3]int {
	var single [][2]int
	for s := 0; s <= n; s++ {
		for e := s + 1; e <= n+1; e++ {
			ee := e
			if e == n+1 {
				ee = 0
			}
			single = append(single, [2]int{s, ee})
		}
	}
	var out [][][3]int
	for _, r := range single {
		out = append(out, [][3]int{{r[0], r[1], 1}}, [][3]int{{r[0], r[1], 0}})
	}
	for _, a := range single {
		for _, b := range single {
			if a[1] != 0 && a[1] <= b[0] {
				out = append(out, [][3]int{{a[0], a[1], 0}, {b[0], b[1], 0}})
				for _, c := range single {
					if b[1] != 0 && b[1] <= c[0] && (c[1] == 0 || c[1] == n) {
						out = append(out, [][3]int{{a[0], a[1], 0}, {b[0], b[1], 0}, {c[0], c[1], 0}})
					}
				}
			}
		}
	}
	return out
}

func TestVerifRegionCache(t *testing.T) {
	out := os.Getenv("VERIF_OUT")
	if out == "" {
		t.Skip("VERIF_OUT not set")
	}
	seed, _ := strconv.ParseInt(os.Getenv("VERIF_SEED"), 10, 64)
	n, _ := strconv.Atoi(os.Getenv("VERIF_N"))
	steps, _ := strconv.Atoi(os.Getenv("VERIF_STEPS"))
	if steps == 0 {
		steps = 60
	}
	div, _ := strconv.Atoi(os.Getenv("VERIF_ENUM_DIV"))
	util.EnableFailpoints()
	if err := failpoint.Enable("tikvclient/fastBackoffBySkipSleep", "return"); err != nil {
		t.Fatal(err)
	}
	defer failpoint.Disable("tikvclient/fastBackoffBySkipSleep")
	f, err := os.Create(out)
	if err != nil {
		t.Fatal(err)
	}
	defer f.Close()
	log := bufio.NewWriterSize(f, 1<<20)
	defer log.Flush()
	if os.Getenv("VERIF_MODE") == "enum" {
		vEnum(log, seed, div)
		return
	}
	for s := 0; s < n; s++ {
		vWalk(log, seed, s, steps)
	}
}
