package locate

// C10 harness.  A scripted client.Client answers the i-th attempt of one RegionRequestSender.SendReqCtx call with the
// i-th reply kind of a fault script (then with success, or with the last kind for ever).  Scripts are enumerated up to a
// length bound over all reply kinds, crossed with command kind (read / write), replica-read mode (as the callers set it),
// store-selector options and read-ts validation.  Every attempt is recorded with the flags the store would act upon and
// the back-offer's counters at that moment; the call's outcome with the provenance of the returned response.
// SenderMonitor.tla decides.

import (
	"bufio"
	"context"
	"encoding/json"
	"errors"
	"fmt"
	"math/rand"
	"os"
	"strconv"
	"sync"
	"testing"
	"time"

	"github.com/pingcap/failpoint"
	"github.com/pingcap/kvproto/pkg/errorpb"
	"github.com/pingcap/kvproto/pkg/kvrpcpb"
	"github.com/pingcap/kvproto/pkg/metapb"
	"github.com/tikv/client-go/v2/config/retry"
	"github.com/tikv/client-go/v2/internal/client"
	"github.com/tikv/client-go/v2/internal/mockstore/mocktikv"
	"github.com/tikv/client-go/v2/kv"
	"github.com/tikv/client-go/v2/oracle"
	"github.com/tikv/client-go/v2/tikvrpc"
	"github.com/tikv/client-go/v2/util"
	"github.com/tikv/client-go/v2/util/async"
)

var sKinds = []string{"ok", "rpc_error", "deadline", "not_leader_hint", "not_leader_nohint", "epoch_not_match", "epoch_not_match_regions", "region_not_found",
	"server_busy", "server_busy_wait", "stale_command", "store_not_match", "data_not_ready", "max_ts_not_synced", "disk_full", "read_index_not_ready",
	"proposal_in_merge", "raft_entry_too_large", "region_not_initialized", "recovery_in_progress", "flashback_in_progress", "flashback_not_prepared",
	"is_witness", "mismatch_peer_id", "key_not_in_region", "unknown"}

type sAttempt struct {
	Store   uint64 `json:"store"`
	Peer    uint64 `json:"peer"`
	RR      bool   `json:"rr"`
	SR      bool   `json:"sr"`
	Retry   bool   `json:"retry"`
	Kind    string `json:"kind"`
	Sleep   int    `json:"sleep"`
	BTimes  int    `json:"btimes"`
	Forward bool   `json:"forward"`
}

type sClient struct {
	mu       sync.Mutex
	script   []string
	tail     string // "ok" or "repeat"
	attempts []sAttempt
	okResp   *tikvrpc.Response
	bo       *retry.Backoffer
	cluster  *mocktikv.Cluster
	meta     *metapb.Region
	limit    int
	over     bool
}

func (c *sClient) Close() error                                  { return nil }
func (c *sClient) CloseAddr(addr string) error                   { return nil }
func (c *sClient) SetEventListener(l client.ClientEventListener) {}
func (c *sClient) SendRequestAsync(ctx context.Context, addr string, req *tikvrpc.Request, cb async.Callback[*tikvrpc.Response]) {
	resp, err := c.SendRequest(ctx, addr, req, 0)
	cb.Invoke(resp, err)
}

func (c *sClient) SendRequest(ctx context.Context, addr string, req *tikvrpc.Request, timeout time.Duration) (*tikvrpc.Response, error) {
	c.mu.Lock()
	defer c.mu.Unlock()
	i := len(c.attempts)
	kind := c.tail
	if i < len(c.script) {
		kind = c.script[i]
	} else if c.tail == "repeat" {
		kind = c.script[len(c.script)-1]
	}
	if i >= c.limit { // the watchdog: a call that is still sending after this many attempts is reported as spinning
		c.over = true
		kind = "ok"
	}
	var storeID uint64
	if s := c.cluster.GetStoreByAddr(addr); s != nil {
		storeID = s.Id
	}
	a := sAttempt{Store: storeID, RR: req.ReplicaRead, SR: req.StaleRead, Retry: req.IsRetryRequest, Kind: kind,
		Sleep: c.bo.GetTotalSleep(), BTimes: c.bo.GetTotalBackoffTimes(), Forward: req.ForwardedHost != ""}
	if req.Context.Peer != nil {
		a.Peer = req.Context.Peer.Id
	}
	c.attempts = append(c.attempts, a)
	other := func() *metapb.Peer {
		for _, p := range c.meta.Peers {
			if req.Context.Peer == nil || p.Id != req.Context.Peer.Id {
				return p
			}
		}
		return nil
	}
	re := func(e *errorpb.Error) (*tikvrpc.Response, error) {
		if e.Message == "" {
			e.Message = "verif " + kind
		}
		return tikvrpc.GenRegionErrorResp(req, e)
	}
	switch kind {
	case "ok":
		var p interface{}
		switch req.Type {
		case tikvrpc.CmdGet:
			p = &kvrpcpb.GetResponse{Value: []byte("genuine")}
		default:
			p = &kvrpcpb.PrewriteResponse{}
		}
		c.okResp = &tikvrpc.Response{Resp: p}
		return c.okResp, nil
	case "rpc_error":
		return nil, errors.New("verif: connection reset")
	case "deadline":
		return nil, context.DeadlineExceeded
	case "not_leader_hint":
		return re(&errorpb.Error{NotLeader: &errorpb.NotLeader{RegionId: c.meta.Id, Leader: other()}})
	case "not_leader_nohint":
		return re(&errorpb.Error{NotLeader: &errorpb.NotLeader{RegionId: c.meta.Id}})
	case "epoch_not_match":
		return re(&errorpb.Error{EpochNotMatch: &errorpb.EpochNotMatch{}})
	case "epoch_not_match_regions":
		m := *c.meta
		m.RegionEpoch = &metapb.RegionEpoch{ConfVer: c.meta.RegionEpoch.ConfVer, Version: c.meta.RegionEpoch.Version + uint64(i) + 1}
		return re(&errorpb.Error{EpochNotMatch: &errorpb.EpochNotMatch{CurrentRegions: []*metapb.Region{&m}}})
	case "region_not_found":
		return re(&errorpb.Error{RegionNotFound: &errorpb.RegionNotFound{RegionId: c.meta.Id}})
	case "server_busy":
		return re(&errorpb.Error{ServerIsBusy: &errorpb.ServerIsBusy{Reason: "verif"}})
	case "server_busy_wait":
		return re(&errorpb.Error{ServerIsBusy: &errorpb.ServerIsBusy{Reason: "verif", EstimatedWaitMs: 500}})
	case "stale_command":
		return re(&errorpb.Error{StaleCommand: &errorpb.StaleCommand{}})
	case "store_not_match":
		return re(&errorpb.Error{StoreNotMatch: &errorpb.StoreNotMatch{RequestStoreId: storeID, ActualStoreId: storeID + 100}})
	case "data_not_ready":
		return re(&errorpb.Error{DataIsNotReady: &errorpb.DataIsNotReady{RegionId: c.meta.Id, SafeTs: 1}})
	case "max_ts_not_synced":
		return re(&errorpb.Error{MaxTimestampNotSynced: &errorpb.MaxTimestampNotSynced{}})
	case "disk_full":
		return re(&errorpb.Error{DiskFull: &errorpb.DiskFull{StoreId: []uint64{storeID}, Reason: "verif"}})
	case "read_index_not_ready":
		return re(&errorpb.Error{ReadIndexNotReady: &errorpb.ReadIndexNotReady{RegionId: c.meta.Id}})
	case "proposal_in_merge":
		return re(&errorpb.Error{ProposalInMergingMode: &errorpb.ProposalInMergingMode{RegionId: c.meta.Id}})
	case "raft_entry_too_large":
		return re(&errorpb.Error{RaftEntryTooLarge: &errorpb.RaftEntryTooLarge{RegionId: c.meta.Id}})
	case "region_not_initialized":
		return re(&errorpb.Error{RegionNotInitialized: &errorpb.RegionNotInitialized{RegionId: c.meta.Id}})
	case "recovery_in_progress":
		return re(&errorpb.Error{RecoveryInProgress: &errorpb.RecoveryInProgress{RegionId: c.meta.Id}})
	case "flashback_in_progress":
		return re(&errorpb.Error{FlashbackInProgress: &errorpb.FlashbackInProgress{RegionId: c.meta.Id}})
	case "flashback_not_prepared":
		return re(&errorpb.Error{FlashbackNotPrepared: &errorpb.FlashbackNotPrepared{RegionId: c.meta.Id}})
	case "is_witness":
		return re(&errorpb.Error{IsWitness: &errorpb.IsWitness{RegionId: c.meta.Id}})
	case "mismatch_peer_id":
		return re(&errorpb.Error{MismatchPeerId: &errorpb.MismatchPeerId{RequestPeerId: a.Peer, StorePeerId: a.Peer + 100}})
	case "key_not_in_region":
		return re(&errorpb.Error{KeyNotInRegion: &errorpb.KeyNotInRegion{RegionId: c.meta.Id}})
	default:
		return re(&errorpb.Error{Message: "verif unknown region error"})
	}
}

type sValidator struct{ fail bool }

func (v sValidator) ValidateReadTS(ctx context.Context, readTS uint64, isStaleRead bool, opt *oracle.Option) error {
	if v.fail {
		return fmt.Errorf("verif: read ts %d is in the future", readTS)
	}
	return nil
}

type sConfig struct {
	Cmd      string `json:"cmd"`  // read | write
	Mode     string `json:"mode"` // leader | follower | mixed | learner | prefer_leader | stale
	Opt      string `json:"opt"`  // none | leader_only | labels | stores
	Validate string `json:"validate"`
	Budget   int    `json:"budget"`
}

func sRunOne(log *bufio.Writer, cfg sConfig, script []string, tail string, limit int) {
	store := mocktikv.MustNewMVCCStore()
	defer store.Close()
	cluster := mocktikv.NewCluster(store)
	storeIDs, _, regionID, _ := mocktikv.BootstrapWithMultiStores(cluster, 3)
	cluster.UpdateStoreLabels(storeIDs[1], []*metapb.StoreLabel{{Key: "zone", Value: "z2"}})
	cache := NewRegionCache(mocktikv.NewPDClient(cluster))
	defer cache.Close()
	cache.stores.setMockRequestLiveness(func(ctx context.Context, s *Store) livenessState { return reachable })
	bo := retry.NewBackofferWithVars(context.Background(), cfg.Budget, nil)
	loc, err := cache.LocateKey(bo, []byte("k"))
	if err != nil {
		panic(err)
	}
	meta, _ := cluster.GetRegion(regionID)
	cl := &sClient{script: script, tail: tail, bo: bo, cluster: cluster, meta: meta, limit: limit}
	sender := NewRegionRequestSender(cache, cl, sValidator{fail: cfg.Validate == "fail"})
	var typ tikvrpc.CmdType
	var body interface{}
	if cfg.Cmd == "read" {
		typ, body = tikvrpc.CmdGet, &kvrpcpb.GetRequest{Key: []byte("k"), Version: 100}
	} else {
		typ, body = tikvrpc.CmdPrewrite, &kvrpcpb.PrewriteRequest{StartVersion: 100, PrimaryLock: []byte("k"),
			Mutations: []*kvrpcpb.Mutation{{Op: kvrpcpb.Op_Put, Key: []byte("k"), Value: []byte("v")}}}
	}
	seed := uint32(1)
	var req *tikvrpc.Request
	switch cfg.Mode {
	case "leader":
		req = tikvrpc.NewRequest(typ, body)
	case "follower":
		req = tikvrpc.NewReplicaReadRequest(typ, body, kv.ReplicaReadFollower, &seed)
	case "mixed":
		req = tikvrpc.NewReplicaReadRequest(typ, body, kv.ReplicaReadMixed, &seed)
	case "learner":
		req = tikvrpc.NewReplicaReadRequest(typ, body, kv.ReplicaReadLearner, &seed)
	case "prefer_leader":
		req = tikvrpc.NewReplicaReadRequest(typ, body, kv.ReplicaReadPreferLeader, &seed)
	case "stale":
		req = tikvrpc.NewRequest(typ, body)
		req.EnableStaleWithMixedReplicaRead()
		req.ReplicaReadSeed = &seed
	}
	var opts []StoreSelectorOption
	switch cfg.Opt {
	case "leader_only":
		opts = append(opts, WithLeaderOnly())
	case "labels":
		opts = append(opts, WithMatchLabels([]*metapb.StoreLabel{{Key: "zone", Value: "z2"}}))
	case "stores":
		opts = append(opts, WithMatchStores([]uint64{storeIDs[2]}))
	}
	type res struct {
		resp *tikvrpc.Response
		err  error
	}
	done := make(chan res, 1)
	go func() {
		defer func() {
			if r := recover(); r != nil {
				done <- res{nil, fmt.Errorf("panic: %v", r)}
			}
		}()
		resp, _, _, err := sender.SendReqCtx(bo, req, loc.Region, time.Second, tikvrpc.TiKV, opts...)
		done <- res{resp, err}
	}()
	ev := map[string]interface{}{"ev": "call", "cfg": cfg, "script": script, "tail": tail, "hang": false, "result": "none", "genuine": false, "errmsg": "", "rerr": ""}
	select {
	case r := <-done:
		cl.mu.Lock()
		switch {
		case r.err != nil:
			ev["result"], ev["errmsg"] = "error", fmt.Sprintf("%T: %s", r.err, r.err.Error())
		case r.resp == nil:
			ev["result"] = "nil"
		default:
			re, e2 := r.resp.GetRegionError()
			if e2 != nil {
				ev["result"], ev["errmsg"] = "error", e2.Error()
			} else if re != nil {
				ev["result"], ev["rerr"] = "region_error", re.String()
			} else {
				ev["result"], ev["genuine"] = "resp", r.resp == cl.okResp && cl.okResp != nil
			}
		}
		cl.mu.Unlock()
	case <-time.After(20 * time.Second):
		ev["hang"] = true
	}
	cl.mu.Lock()
	ev["attempts"] = append([]sAttempt{}, cl.attempts...)
	ev["spinning"] = cl.over
	cl.mu.Unlock()
	ev["total_sleep"], ev["btimes"] = bo.GetTotalSleep(), bo.GetTotalBackoffTimes()
	excl := 0
	for kind, ms := range bo.GetBackoffSleepMS() {
		if kind == "tikvServerBusy" || kind == "tiflashServerBusy" { // the kinds whose sleep is not charged to the budget
			excl += ms
		}
	}
	ev["excluded_sleep"] = excl
	b, _ := json.Marshal(ev)
	log.Write(b)
	log.WriteByte('\n')
}

func sScripts(maxLen int, f func([]string)) {
	var rec func(cur []string)
	rec = func(cur []string) {
		if len(cur) > 0 {
			f(append([]string{}, cur...))
		}
		if len(cur) == maxLen {
			return
		}
		for _, k := range sKinds[1:] { // "ok" ends a script by itself
			rec(append(cur, k))
		}
	}
	rec(nil)
}

func TestVerifSender(t *testing.T) {
	out := os.Getenv("VERIF_OUT")
	if out == "" {
		t.Skip("VERIF_OUT not set")
	}
	seed, _ := strconv.ParseInt(os.Getenv("VERIF_SEED"), 10, 64)
	maxLen, _ := strconv.Atoi(os.Getenv("VERIF_LEN"))
	if maxLen == 0 {
		maxLen = 2
	}
	div, _ := strconv.Atoi(os.Getenv("VERIF_DIV"))
	if div < 1 {
		div = 1
	}
	nrand, _ := strconv.Atoi(os.Getenv("VERIF_RANDOM"))
	util.EnableFailpoints()
	if err := failpoint.Enable("tikvclient/fastBackoffBySkipSleep", "return"); err != nil {
		t.Fatal(err)
	}
	defer failpoint.Disable("tikvclient/fastBackoffBySkipSleep")
	f, err := os.Create(out)
	if err != nil {
		t.Fatal(err)
	}
	defer f.Close()
	log := bufio.NewWriterSize(f, 1<<20)
	defer log.Flush()
	rnd := rand.New(rand.NewSource(seed))
	var cfgs []sConfig
	for _, cmd := range []string{"read", "write"} {
		for _, mode := range []string{"leader", "follower", "mixed", "learner", "prefer_leader", "stale"} {
			for _, opt := range []string{"none", "leader_only", "labels", "stores"} {
				cfgs = append(cfgs, sConfig{Cmd: cmd, Mode: mode, Opt: opt, Validate: "ok", Budget: 2000})
			}
		}
	}
	cnt := 0
	sScripts(maxLen, func(script []string) {
		for _, cfg := range cfgs {
			for _, tail := range []string{"ok", "repeat"} {
				cnt++
				if (cnt+int(seed))%div != 0 {
					continue
				}
				sRunOne(log, cfg, script, tail, 300)
			}
		}
	})
	// every reply kind repeated for ever under a budget that is spent after a few back-offs, long before the replicas'
	// attempt limits are reached (never sampled)
	for _, k := range sKinds[1:] {
		for _, cfg := range cfgs {
			small := cfg
			small.Budget = 60
			sRunOne(log, small, []string{k}, "repeat", 300)
		}
	}
	// read-ts validation: nothing may be sent when it fails
	for _, cfg := range cfgs {
		c := cfg
		c.Validate = "fail"
		sRunOne(log, c, []string{"server_busy"}, "ok", 300)
	}
	// longer random scripts
	for i := 0; i < nrand; i++ {
		n := maxLen + 1 + rnd.Intn(6)
		script := make([]string, n)
		for j := range script {
			script[j] = sKinds[1+rnd.Intn(len(sKinds)-1)]
		}
		cfg := cfgs[rnd.Intn(len(cfgs))]
		cfg.Budget = []int{100, 2000, 20000}[rnd.Intn(3)]
		sRunOne(log, cfg, script, []string{"ok", "repeat"}[rnd.Intn(2)], 600)
	}
}
