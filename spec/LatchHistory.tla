---------------------------- MODULE LatchHistory ----------------------------
(* Property-level monitor (C17b) of Lock / UnLock histories recorded from the real             *)
(* LatchesScheduler under concurrency.  Events are ordered by a global counter taken after     *)
(* Lock returned and before UnLock is called, so an observed hold interval lies inside the     *)
(* real one; overlapping observed holds on a key are therefore a sound exclusivity violation,  *)
(* and "h's UnLock was called before t's Lock returned" is a sound "h held before t".          *)
EXTENDS Integers, Sequences, FiniteSets, TLC, Json
Trace == ndJsonDeserialize("trace.ndjson")
VARIABLES pos,
          pend,      \* requests called and not yet returned: t -> [keys, start]
          hold,      \* returned, not yet unlocking: t -> [keys, start, stale]
          maxc,      \* key -> largest commit ts of a holder whose UnLock has been called
          rel        \* key -> set of transactions whose UnLock has been called (for reporting)
hvars == <<pos, pend, hold, maxc, rel>>
Ev == Trace[pos]
SetOf(s) == {s[i] : i \in 1..Len(s)}
Get0(f, k) == IF k \in DOMAIN f THEN f[k] ELSE 0
Ext(f, k, v) == [x \in DOMAIN f \cup {k} |-> IF x = k THEN v ELSE f[x]]
Drop(f, k) == [x \in DOMAIN f \ {k} |-> f[x]]
Init == pos = 1 /\ pend = <<>> /\ hold = <<>> /\ maxc = <<>> /\ rel = <<>>
Bad(what) == PrintT(<<"MISMATCH", pos, what, Ev>>)
Next ==
  /\ pos <= Len(Trace) /\ pos' = pos + 1
  /\ CASE Ev.ev = "reset" -> pend' = <<>> /\ hold' = <<>> /\ maxc' = <<>> /\ rel' = <<>>
       [] Ev.ev = "call" -> pend' = Ext(pend, Ev.t, [keys |-> SetOf(Ev.keys), start |-> Ev.start]) /\ UNCHANGED <<hold, maxc, rel>>
       [] Ev.ev = "ret" ->
            LET p == pend[Ev.t]
                others == {h \in DOMAIN hold : ~hold[h].stale /\ hold[h].keys \cap p.keys # {}}
                cause == \E k \in p.keys : Get0(maxc, k) > p.start
            IN /\ pend' = Drop(pend, Ev.t)
               /\ hold' = Ext(hold, Ev.t, [keys |-> p.keys, start |-> p.start, stale |-> Ev.stale])
               /\ UNCHANGED <<maxc, rel>>
               /\ IF ~Ev.stale /\ others # {} THEN Bad(<<"not exclusive with", others>>) ELSE TRUE
               /\ IF ~Ev.stale /\ cause THEN Bad("not stale although a key was released with a newer commit ts") ELSE TRUE
               /\ IF Ev.stale /\ ~cause THEN Bad("stale without any released key of newer commit ts") ELSE TRUE
       [] Ev.ev = "unlock" ->
            LET h == hold[Ev.t]
            IN /\ hold' = Drop(hold, Ev.t)
               /\ maxc' = [k \in DOMAIN maxc \cup h.keys |-> IF k \in h.keys /\ Ev.commit > Get0(maxc, k) THEN Ev.commit ELSE Get0(maxc, k)]
               /\ UNCHANGED <<pend, rel>>
               /\ IF ~h.stale /\ Ev.commit <= h.start THEN Bad("harness: commit ts not above start ts") ELSE TRUE
       [] Ev.ev = "end" ->
            /\ UNCHANGED <<pend, hold, maxc, rel>>
            \* a request that never returned although nobody holds any of its keys: lost wake-up / deadlock
            /\ IF Ev.hung /\ \E t \in DOMAIN pend : \A h \in DOMAIN hold : hold[h].keys \cap pend[t].keys = {}
               THEN Bad("request never returned although no holder remains (lost wake-up or deadlock)")
               ELSE IF ~Ev.hung /\ (DOMAIN pend # {} \/ DOMAIN hold # {}) THEN Bad("harness: unfinished requests at a normal end") ELSE TRUE
Spec == Init /\ [][Next]_hvars
Done == TLCGet("stats").diameter - 1 = Len(Trace) \/ PrintT(<<"INCOMPLETE", TLCGet("stats").diameter>>)
=============================================================================
