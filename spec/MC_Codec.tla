------------------------------ MODULE MC_Codec ------------------------------
(* Exhaustive evaluation of the C19 properties on the model's boundary domain.          *)
(* One initial state per case; the invariant is the property; there is no behaviour.    *)
EXTENDS Codec, TLC
CONSTANT Tier            \* "quick" | "thorough"
Alpha == {0, 1, 127, 128, 254, 255}
Str(S, n) == [1..n -> S]
DomShort == UNION {Str(Alpha, n) : n \in 0..(IF Tier = "quick" THEN 2 ELSE 3)}
DomLong  == UNION {Str({0, 255}, n) : n \in (IF Tier = "quick" THEN {8} ELSE {7, 8, 9})}
DomXL    == UNION {Str({0, 255}, n) : n \in (IF Tier = "quick" THEN {16} ELSE {15, 16, 17})}
Sfx == {<<>>, <<0>>, <<255, 1>>}
\* 64-bit boundary values: fill^a ++ <<x, y>> ++ fill'^(6-a)
Fill(c, n) == [i \in 1..n |-> c]
IntDom == {Fill(f1, a) \o <<x, y>> \o Fill(f2, 6 - a) :
             f1 \in {0, 255}, f2 \in {0, 255}, a \in 0..6, x \in Alpha, y \in Alpha}
IntDomQ == IF Tier = "quick" THEN {v \in IntDom : v[1] \in {0, 255} /\ v[8] \in {0, 255}} ELSE IntDom

VARIABLES mode, xa, xb, ph      \* b = "none" until the second component is chosen (parallel over workers)
vars == <<mode, xa, xb, ph>>
None == "none"
x == <<xa, xb>>
Init == /\ xb = <<>> /\ ph = 0
        /\ \/ mode = "bytes1" /\ xa \in DomShort \cup DomLong \cup DomXL
           \/ mode = "bytes2" /\ xa \in DomShort \cup DomLong
           \/ mode = "corrupt" /\ xa \in DomShort \cup DomLong
           \/ mode = "int1" /\ xa \in IntDom
           \/ mode = "int2" /\ xa \in IntDomQ
Next == /\ ph = 0 /\ ph' = 1 /\ UNCHANGED <<mode, xa>>
        /\ \/ mode \in {"bytes1", "int1"} /\ xb' \in Sfx
           \/ mode = "bytes2" /\ xb' \in DomShort \cup DomLong
           \/ mode = "corrupt" /\ xb' = <<>>
           \/ mode = "int2" /\ xb' \in IntDomQ
Spec == Init /\ [][Next]_vars

Bytes1 == (mode = "bytes1" /\ ph = 1) =>
  /\ RoundTripBytes(x[1], x[2]) /\ RoundTripBytesDesc(x[1], x[2])
  /\ \A k \in 0..(Len(EncBytes(x[1])) - 1) : ~DecBytes(SubSeq(EncBytes(x[1]), 1, k)).ok
Bytes2 == (mode = "bytes2" /\ ph = 1) =>
  /\ OrderBytes(x[1], x[2]) /\ OrderBytesDesc(x[1], x[2])
  /\ PrefixFreeBytes(x[1], x[2]) /\ PrefixFreeBytes(x[2], x[1])
Corrupt == (mode = "corrupt" /\ ph = 1) =>
  LET e == EncBytes(x[1])
  IN \A i \in 1..Len(e) : \A c \in Alpha \cup {247, 248, 246, 8, 9} :
        CanonicalBytes([e EXCEPT ![i] = c])
RT(enc(_), dec(_), v, s) == dec(enc(v) \o s) = Ok(v, s)
Int1 == (mode = "int1" /\ ph = 1) =>
  /\ RT(EncInt, DecInt, x[1], x[2]) /\ RT(EncIntDesc, DecIntDesc, x[1], x[2])
  /\ RT(EncUint, DecUint, x[1], x[2]) /\ RT(EncUintDesc, DecUintDesc, x[1], x[2])
  /\ RT(EncVarint, DecVarint, x[1], x[2]) /\ RT(EncUvarint, DecUvarint, x[1], x[2])
  /\ RT(EncCVarint, DecCVarint, x[1], x[2]) /\ RT(EncCUvarint, DecCUvarint, x[1], x[2])
  /\ BytesOf(BitsOf(x[1])) = x[1]
Int2 == (mode = "int2" /\ ph = 1) =>
  LET a == x[1] b == x[2]
  IN /\ LexCmp(EncInt(a), EncInt(b)) = CmpInt(a, b)
     /\ LexCmp(EncIntDesc(a), EncIntDesc(b)) = -CmpInt(a, b)
     /\ LexCmp(EncUint(a), EncUint(b)) = CmpUint(a, b)
     /\ LexCmp(EncUintDesc(a), EncUintDesc(b)) = -CmpUint(a, b)
     /\ LexCmp(EncCVarint(a), EncCVarint(b)) = CmpInt(a, b)
     /\ LexCmp(EncCUvarint(a), EncCUvarint(b)) = CmpUint(a, b)
     /\ (a # b => /\ ~IsProperPrefix(EncCVarint(a), EncCVarint(b))
                  /\ ~IsProperPrefix(EncCUvarint(a), EncCUvarint(b))
                  /\ ~IsProperPrefix(EncVarint(a), EncVarint(b))
                  /\ ~IsProperPrefix(EncUvarint(a), EncUvarint(b)))
=============================================================================
