---------------------------- MODULE AsyncCommit ----------------------------
(* I-spec of async commit as client-go drives it (txnkv/transaction: prewrite.go, 2pc.go;          *)
(* txnkv/txnlock: resolveAsyncCommitLock / checkAllSecondaries) against a store with TiKV's rules.  *)
(* One writer W (start ts S) writes every key of Keys; key P is its primary, the others are the      *)
(* secondaries listed in the primary's lock.  There is no commit request that decides: W is          *)
(* committed as soon as every key carries its async-commit lock, with commit ts = the largest        *)
(* min-commit-ts among the locks.  A store keeps, per key, the largest read ts it has served         *)
(* (maxts); a prewrite sets the lock's min-commit-ts above it, so a snapshot that has not seen W's   *)
(* write stays below W's commit ts.                                                                  *)
(* Actors: the committer (prewrites, learns or loses the answers, acknowledges, commits the keys,    *)
(* or cleans up after a definite failure), any number of resolver rounds (status of the primary,     *)
(* CheckSecondaryLocks key by key - a secondary found neither locked nor committed gets a rollback   *)
(* record and decides "rolled back" - then ResolveLock key by key; a round may stop anywhere),       *)
(* readers (snapshot reads that bump maxts).  Lock expiry is not modelled: a resolver may act at any *)
(* time, which is what GC's forced resolution does and the worst case for the protocol.              *)
(* CleanupOnUndetermined = TRUE is the committer as it was at the pinned commit: a prewrite whose    *)
(* answer is "result undetermined" makes Commit return 'undetermined' but the keys are still rolled  *)
(* back by the deferred cleanup (TLC: OneOutcome fails - a resolver commits one key, the cleanup     *)
(* rolls back another).  FALSE is the repaired committer (2e2f99a).  NonLockingCheck: see CheckFails. *)
EXTENDS Integers, FiniteSets, TLC
CONSTANTS Keys, P, MaxTs, MaxRounds, CleanupOnUndetermined, NonLockingCheck
ASSUME P \in Keys
S == 1                                   \* W's start ts
None == 0
VARIABLES lock,      \* lock[k]: 0 = no lock of W, otherwise the lock's min-commit-ts
          write,     \* write[k]: 0 = nothing, -1 = rollback record of W, c > 0 = W's write committed at c
          maxts,     \* maxts[k]: largest read ts served for k
          tso,       \* last timestamp handed out
          cstate,    \* committer: "prewriting" | "acked" | "failed" | "undetermined" | "dead"
          sent,      \* keys whose prewrite request has been sent
          known,     \* known[k]: min-commit-ts the committer learned for k (0 = not learned)
          cts,       \* commit ts the committer computed (0 before)
          rstate,    \* resolver round: "idle" | "checking" | "resolving"
          rmin,      \* min-commit-ts values the round has collected
          rleft,     \* secondaries the round still has to check
          rdec,      \* decision of the round: 0 undecided, -1 rolled back, c > 0 committed at c
          rounds,    \* rounds started so far
          rd,        \* the current reader's snapshot ts (0 = none)
          obs        \* snapshot reads: <<k, ts, saw W's write>>
vars == <<lock, write, maxts, tso, cstate, sent, known, cts, rstate, rmin, rleft, rdec, rounds, rd, obs>>
Secondaries == Keys \ {P}
MaxOf(Q) == CHOOSE x \in Q : \A y \in Q : y <= x
Init == /\ lock = [k \in Keys |-> 0] /\ write = [k \in Keys |-> 0] /\ maxts = [k \in Keys |-> 0] /\ tso = S
        /\ cstate = "prewriting" /\ sent = {} /\ known = [k \in Keys |-> 0] /\ cts = 0
        /\ rstate = "idle" /\ rmin = {} /\ rleft = {} /\ rdec = 0 /\ rounds = 0 /\ rd = 0 /\ obs = {}
\* ---- the store's side of a prewrite: refuses over W's own rollback record, is idempotent over W's own lock ----
CanLock(k) == write[k] = 0
MinCommit(k) == IF maxts[k] + 1 > S + 1 THEN maxts[k] + 1 ELSE S + 1
\* ---- committer ---------------------------------------------------------------------------------------------
\* the request reaches the store and is answered; the committer learns the answer
PrewriteOK(k) ==
  /\ cstate = "prewriting" /\ k \notin sent /\ CanLock(k)
  /\ sent' = sent \cup {k}
  /\ lock' = [lock EXCEPT ![k] = IF @ = 0 THEN MinCommit(k) ELSE @]
  /\ known' = [known EXCEPT ![k] = IF lock[k] = 0 THEN MinCommit(k) ELSE lock[k]]
  /\ UNCHANGED <<write, maxts, tso, cstate, cts, rstate, rmin, rleft, rdec, rounds, rd, obs>>
\* the store refuses (W's rollback record is there, or its write is already committed and the lock gone): a definite failure
PrewriteRefused(k) ==
  /\ cstate = "prewriting" /\ k \notin sent /\ write[k] = -1
  /\ sent' = sent \cup {k} /\ cstate' = "failed"
  /\ UNCHANGED <<lock, write, maxts, tso, known, cts, rstate, rmin, rleft, rdec, rounds, rd, obs>>
\* the store carries the request out, the answer is lost or says "result undetermined"
PrewriteUndetermined(k) ==
  /\ cstate = "prewriting" /\ k \notin sent
  /\ sent' = sent \cup {k} /\ cstate' = "undetermined"
  /\ lock' = [lock EXCEPT ![k] = IF @ = 0 /\ CanLock(k) THEN MinCommit(k) ELSE @]
  /\ UNCHANGED <<write, maxts, tso, known, cts, rstate, rmin, rleft, rdec, rounds, rd, obs>>
\* NonLockingCheck = TRUE: the transaction also carries an existence check on a key it does not lock (an optimistic insert
\* of a presumed-absent key that is deleted again).  The check is not a secondary, it can fail whenever the committer gets to
\* it - also after every other key is locked - and makes Commit return a definite error.  This is async commit as it was
\* used at the pinned commit for such transactions (TLC: FailHolds fails); since c05f2e6 they do not use async commit.
CheckFails ==
  /\ NonLockingCheck /\ cstate = "prewriting" /\ cstate' = "failed"
  /\ UNCHANGED <<lock, write, maxts, tso, sent, known, cts, rstate, rmin, rleft, rdec, rounds, rd, obs>>
\* every answer is in: the commit ts is the largest min-commit-ts, the application is told "committed"
Ack ==
  /\ cstate = "prewriting" /\ \A k \in Keys : known[k] > 0
  /\ cts' = MaxOf({known[k] : k \in Keys}) /\ cstate' = "acked"
  /\ UNCHANGED <<lock, write, maxts, tso, sent, known, rstate, rmin, rleft, rdec, rounds, rd, obs>>
\* background commit of the keys (a key somebody else has resolved already is left alone)
CommitKey(k) ==
  /\ cstate = "acked" /\ lock[k] # 0
  /\ write' = [write EXCEPT ![k] = cts] /\ lock' = [lock EXCEPT ![k] = 0]
  /\ UNCHANGED <<maxts, tso, cstate, sent, known, cts, rstate, rmin, rleft, rdec, rounds, rd, obs>>
\* cleanup: after a definite failure - and, at the pinned commit, also after 'undetermined'
CleanupKey(k) ==
  /\ cstate = "failed" \/ (cstate = "undetermined" /\ CleanupOnUndetermined)
  /\ k \in sent /\ write[k] <= 0 /\ (lock[k] # 0 \/ write[k] = 0)
  /\ write' = [write EXCEPT ![k] = -1] /\ lock' = [lock EXCEPT ![k] = 0]
  /\ UNCHANGED <<maxts, tso, cstate, sent, known, cts, rstate, rmin, rleft, rdec, rounds, rd, obs>>
Crash ==
  /\ cstate \in {"prewriting", "acked", "failed", "undetermined"} /\ cstate' = "dead"
  /\ UNCHANGED <<lock, write, maxts, tso, sent, known, cts, rstate, rmin, rleft, rdec, rounds, rd, obs>>
\* ---- resolver ----------------------------------------------------------------------------------------------
\* CheckTxnStatus on the primary
RStart ==
  /\ rstate = "idle" /\ rounds < MaxRounds /\ rounds' = rounds + 1
  /\ IF write[P] > 0 THEN rdec' = write[P] /\ rstate' = "resolving" /\ UNCHANGED <<write, rmin, rleft>>
     ELSE IF write[P] = -1 THEN rdec' = -1 /\ rstate' = "resolving" /\ UNCHANGED <<write, rmin, rleft>>
     ELSE IF lock[P] # 0 THEN rdec' = 0 /\ rstate' = "checking" /\ rmin' = {lock[P]} /\ rleft' = Secondaries /\ UNCHANGED write
     ELSE \* neither lock nor record: rollback-if-not-exist
          rdec' = -1 /\ rstate' = "resolving" /\ write' = [write EXCEPT ![P] = -1] /\ UNCHANGED <<rmin, rleft>>
  /\ UNCHANGED <<lock, maxts, tso, cstate, sent, known, cts, rd, obs>>
\* CheckSecondaryLocks, one key at a time
RCheck(k) ==
  /\ rstate = "checking" /\ k \in rleft /\ rleft' = rleft \ {k}
  /\ IF lock[k] # 0 THEN /\ rmin' = rmin \cup {lock[k]} /\ UNCHANGED <<write, rdec>>
                         /\ rstate' = "checking"
     ELSE IF write[k] > 0 THEN rdec' = write[k] /\ rstate' = "resolving" /\ UNCHANGED <<write, rmin>>
     ELSE rdec' = -1 /\ rstate' = "resolving" /\ write' = [write EXCEPT ![k] = -1] /\ UNCHANGED rmin
  /\ UNCHANGED <<lock, maxts, tso, cstate, sent, known, cts, rounds, rd, obs>>
\* every secondary was found locked
RDecide ==
  /\ rstate = "checking" /\ rleft = {} /\ rdec' = MaxOf(rmin) /\ rstate' = "resolving"
  /\ UNCHANGED <<lock, write, maxts, tso, cstate, sent, known, cts, rmin, rleft, rounds, rd, obs>>
\* ResolveLock on one key
RResolve(k) ==
  /\ rstate = "resolving" /\ lock[k] # 0
  /\ lock' = [lock EXCEPT ![k] = 0]
  /\ write' = [write EXCEPT ![k] = IF rdec > 0 THEN rdec ELSE -1]
  /\ UNCHANGED <<maxts, tso, cstate, sent, known, cts, rstate, rmin, rleft, rdec, rounds, rd, obs>>
\* the round ends - finished or not (its client may die anywhere)
REnd ==
  /\ rstate # "idle" /\ rstate' = "idle" /\ rmin' = {} /\ rleft' = {} /\ rdec' = 0
  /\ UNCHANGED <<lock, write, maxts, tso, cstate, sent, known, cts, rounds, rd, obs>>
\* ---- reader ------------------------------------------------------------------------------------------------
\* a reader takes its snapshot ts from the oracle, then reads keys one by one
ReaderBegin ==
  /\ tso < MaxTs /\ tso' = tso + 1 /\ rd' = tso + 1
  /\ UNCHANGED <<lock, write, maxts, cstate, sent, known, cts, rstate, rmin, rleft, rdec, rounds, obs>>
Read(k) ==
  /\ rd # 0
  /\ maxts' = [maxts EXCEPT ![k] = IF rd > @ THEN rd ELSE @]
  /\ IF lock[k] # 0 /\ lock[k] <= rd THEN obs' = obs          \* blocked by the lock: it will resolve and retry
     ELSE obs' = obs \cup {<<k, rd, write[k] > 0 /\ write[k] <= rd>>}
  /\ UNCHANGED <<lock, write, tso, cstate, sent, known, cts, rstate, rmin, rleft, rdec, rounds, rd>>
Next == \/ \E k \in Keys : PrewriteOK(k) \/ PrewriteRefused(k) \/ PrewriteUndetermined(k) \/ CommitKey(k) \/ CleanupKey(k)
        \/ Ack \/ Crash \/ CheckFails
        \/ RStart \/ RDecide \/ REnd \/ \E k \in Keys : RCheck(k) \/ RResolve(k)
        \/ ReaderBegin \/ \E k \in Keys : Read(k)
Spec == Init /\ [][Next]_vars
\* ---- properties ----------------------------------------------------------------------------------------------
Committed == {k \in Keys : write[k] > 0}
RolledBack == {k \in Keys : write[k] = -1}
\* all or nothing, one commit ts
OneOutcome == /\ Committed = {} \/ RolledBack = {}
              /\ \A a, b \in Committed : write[a] = write[b]
\* the application was told "committed": no key is rolled back, committed keys carry the announced ts
AckHolds == cstate = "acked" \/ (cstate = "dead" /\ cts > 0) => RolledBack = {} /\ \A k \in Committed : write[k] = cts
\* the application was told a definite failure: nothing is committed
FailHolds == cstate = "failed" => Committed = {}
\* a snapshot that did not see W's write on k is never overtaken: W does not commit k at or below that snapshot's ts
ReadStable == \A o \in obs : (~o[3] /\ write[o[1]] > 0) => write[o[1]] > o[2]
\* two reads of one snapshot agree about W
SnapshotAtomic == \A a, b \in obs : a[2] = b[2] => a[3] = b[3]
\* a commit ts is above the start ts and at least every lock's min-commit-ts that is still there
CommitTsOK == \A k \in Committed : write[k] > S
=============================================================================
