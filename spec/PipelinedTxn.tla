---------------------------- MODULE PipelinedTxn ----------------------------
(* C16 (transaction level) - property-level monitor of a pipelined transaction on a store that  *)
(* implements the Flush RPC.  Per scenario: the committed base content, the program's writes,    *)
(* reads (judged against "latest write of the transaction, else the base"), forced flushes, the   *)
(* Flush RPCs seen at the wire (generation, keys), how the transaction ended, and afterwards the   *)
(* content of every key read by a fresh snapshot plus the keys on which the store's buffer tier    *)
(* still holds something of the transaction once the background resolution has had time to end.    *)
EXTENDS Integers, Sequences, FiniteSets, TLC, Json
Trace == ndJsonDeserialize("trace.ndjson")
Keys == 1..4
VARIABLES pos, base, cur, lastGen, genKeys, failed, ended
pvars == <<pos, base, cur, lastGen, genKeys, failed, ended>>
Ev == Trace[pos]
Bad(rule, detail) == PrintT(<<"MISMATCH", pos, rule, detail>>)
Check(cond, rule, detail) == IF cond THEN TRUE ELSE Bad(rule, detail)
SetOf(q) == {q[i] : i \in 1..Len(q)}
NoWrite == -2
\* the value a read of the transaction must return: its own latest write (0 = deleted), else the base (-1 = absent)
View(k) == IF cur[k] # NoWrite THEN cur[k] ELSE base[k]
Exists(k) == View(k) > 0
Init == pos = 1 /\ base = [k \in Keys |-> -1] /\ cur = [k \in Keys |-> NoWrite] /\ lastGen = 0 /\ genKeys = {} /\ failed = FALSE /\ ended = "none"
Unch == UNCHANGED <<base, cur, lastGen, genKeys, failed, ended>>
Next ==
  /\ pos <= Len(Trace) /\ pos' = pos + 1
  /\ LET e == Ev IN
     CASE e.ev = "reset" -> base' = [k \in Keys |-> e.base[k]] /\ cur' = [k \in Keys |-> NoWrite] /\ lastGen' = 0 /\ genKeys' = {} /\ failed' = FALSE /\ ended' = "none"
       [] e.ev = "op" /\ e.op = "Set" -> cur' = [cur EXCEPT ![e.k] = e.v] /\ UNCHANGED <<base, lastGen, genKeys, failed, ended>>
       [] e.ev = "op" /\ e.op = "Delete" -> cur' = [cur EXCEPT ![e.k] = 0] /\ UNCHANGED <<base, lastGen, genKeys, failed, ended>>
       [] e.ev = "op" /\ e.op = "Get" ->
            /\ ~failed => Check(IF Exists(e.k) THEN e.res = "nil" /\ e.out = View(e.k) ELSE e.res = "notfound",
                                "a read of the pipelined transaction is not its latest write (or the base value)", <<e.k, e.res, e.out, View(e.k)>>)
            /\ Unch
       [] e.ev = "op" /\ e.op = "BatchGet" ->
            /\ ~failed => Check(e.res = "nil" /\ \A k \in Keys : IF k \in SetOf(e.ks) /\ Exists(k) THEN e.out[k] = View(k) ELSE e.out[k] = -1,
                                "a batch read of the pipelined transaction is not its latest writes (or the base values)", <<e.ks, e.res, e.out, [k \in Keys |-> View(k)]>>)
            /\ Unch
       [] e.ev = "op" /\ e.op = "Flush" -> failed' = (failed \/ e.res # "nil") /\ UNCHANGED <<base, cur, lastGen, genKeys, ended>>
       [] e.ev = "flushrpc" ->
            \* generations never go back; inside one generation a key is written by one successful request only
            /\ Check(e.gen >= lastGen /\ e.gen >= 1, "a Flush request carries a generation below an earlier one", <<e.gen, lastGen>>)
            /\ (e.ok /\ e.gen = lastGen) => Check(SetOf(e.keys) \cap genKeys = {}, "a mutation was flushed twice within one generation", <<e.gen, e.keys, genKeys>>)
            /\ lastGen' = (IF e.gen > lastGen THEN e.gen ELSE lastGen)
            /\ genKeys' = (IF e.gen > lastGen THEN (IF e.ok THEN SetOf(e.keys) ELSE {}) ELSE IF e.ok THEN genKeys \cup SetOf(e.keys) ELSE genKeys)
            /\ UNCHANGED <<base, cur, failed, ended>>
       [] e.ev = "end" -> ended' = (IF e.kind = "commit" /\ e.class = "nil" THEN "committed" ELSE IF e.kind = "commit" THEN "commit_failed" ELSE "rolledback")
                          /\ UNCHANGED <<base, cur, lastGen, genKeys, failed>>
       [] e.ev = "final" ->
            /\ Check(e.readerr = "", "the final read failed", e.readerr)
            /\ Check(e.leftover = <<>>, "flushed locks of the transaction remain after it ended (commit or rollback did not cover the whole flushed key range)", <<ended, e.leftover>>)
            /\ (ended = "committed" /\ ~failed) =>
                  Check(\A k \in Keys : e.vals[k] = (IF Exists(k) THEN View(k) ELSE -1), "a committed pipelined transaction did not leave exactly its writes", <<e.vals, [k \in Keys |-> View(k)]>>)
            /\ (ended = "rolledback") =>
                  Check(\A k \in Keys : e.vals[k] = base[k], "a rolled-back pipelined transaction changed the store", <<e.vals, base>>)
            /\ Unch
       [] OTHER -> Unch
Spec == Init /\ [][Next]_pvars
Done == TLCGet("stats").diameter - 1 = Len(Trace) \/ PrintT(<<"INCOMPLETE", TLCGet("stats").diameter>>)
=============================================================================
