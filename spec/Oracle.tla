------------------------------- MODULE Oracle -------------------------------
(* C13 - I-spec of pdOracle's publication and validation mechanism (oracle/oracles/pd.go).     *)
(*  - PD issues 1, 2, 3, ...; a fetch is two steps (PD allocates; later the response arrives    *)
(*    and setLastTS publishes it only if it is newer), so responses may arrive out of order.     *)
(*  - ValidateReadTS(r): accept if r <= last; otherwise obtain a timestamp through a             *)
(*    single-flight fetch (a caller that finds a fetch in flight waits for ITS result, which may  *)
(*    have been allocated before the caller started), accept if r <= it, otherwise retry the       *)
(*    whole check once (RetryOnce) and reject on the second failure.                               *)
(* Checked: last never decreases and never exceeds what PD issued; fetched timestamps increase in  *)
(* real-time order; validation accepts every timestamp issued before the call started and rejects *)
(* every timestamp beyond what PD has issued when it ends.  With RetryOnce = FALSE the first       *)
(* property of validation fails (a stale single-flight result): the retry is what makes it hold.   *)
EXTENDS Integers, FiniteSets, TLC
CONSTANTS Callers, MaxIssue, RetryOnce
VARIABLES issued, last, pc, op, my, readTS, startIssued, floorRet, maxRet, retried, verdict, flight
vars == <<issued, last, pc, op, my, readTS, startIssued, floorRet, maxRet, retried, verdict, flight>>
Idle == [state |-> "idle", val |-> 0, owner |-> 0]
Init == /\ issued = 0 /\ last = 0 /\ pc = [c \in Callers |-> "start"] /\ op = [c \in Callers |-> "none"] /\ my = [c \in Callers |-> 0]
        /\ readTS = [c \in Callers |-> 0] /\ startIssued = [c \in Callers |-> 0] /\ floorRet = [c \in Callers |-> 0] /\ maxRet = 0
        /\ retried = [c \in Callers |-> FALSE] /\ verdict = [c \in Callers |-> "none"] /\ flight = Idle
Start(c) ==
  /\ pc[c] = "start"
  /\ \/ /\ op' = [op EXCEPT ![c] = "get"] /\ pc' = [pc EXCEPT ![c] = "alloc"] /\ UNCHANGED readTS
     \/ \E r \in 1..(MaxIssue + 1) : op' = [op EXCEPT ![c] = "validate"] /\ readTS' = [readTS EXCEPT ![c] = r] /\ pc' = [pc EXCEPT ![c] = "check"]
  /\ startIssued' = [startIssued EXCEPT ![c] = issued] /\ floorRet' = [floorRet EXCEPT ![c] = maxRet]
  /\ UNCHANGED <<issued, last, my, maxRet, retried, verdict, flight>>
\* PD allocates
Alloc(c) ==
  /\ pc[c] = "alloc" /\ issued < MaxIssue
  /\ issued' = issued + 1 /\ my' = [my EXCEPT ![c] = issued + 1] /\ pc' = [pc EXCEPT ![c] = "publish"]
  /\ UNCHANGED <<last, op, readTS, startIssued, floorRet, maxRet, retried, verdict, flight>>
\* the response arrives: setLastTS (publish only if newer)
Publish(c) ==
  /\ pc[c] = "publish"
  /\ last' = (IF my[c] > last THEN my[c] ELSE last)
  /\ IF op[c] = "get"
     THEN pc' = [pc EXCEPT ![c] = "done"] /\ maxRet' = (IF my[c] > maxRet THEN my[c] ELSE maxRet) /\ UNCHANGED flight
     ELSE \* the owner of the single flight completes it
          pc' = [pc EXCEPT ![c] = "decide"] /\ flight' = [state |-> "idle", val |-> my[c], owner |-> 0] /\ UNCHANGED maxRet
  /\ UNCHANGED <<issued, op, my, readTS, startIssued, floorRet, retried, verdict>>
Check(c) ==
  /\ pc[c] = "check"
  /\ IF readTS[c] <= last
     THEN pc' = [pc EXCEPT ![c] = "done"] /\ verdict' = [verdict EXCEPT ![c] = "accepted"] /\ UNCHANGED flight
     ELSE IF flight.state = "idle"
          THEN flight' = [state |-> "running", val |-> 0, owner |-> c] /\ pc' = [pc EXCEPT ![c] = "alloc"] /\ UNCHANGED verdict
          ELSE pc' = [pc EXCEPT ![c] = "wait"] /\ UNCHANGED <<flight, verdict>>
  /\ UNCHANGED <<issued, last, op, my, readTS, startIssued, floorRet, maxRet, retried>>
\* a waiter takes the result of the flight it joined
Wait(c) ==
  /\ pc[c] = "wait" /\ flight.state = "idle"
  /\ my' = [my EXCEPT ![c] = flight.val] /\ pc' = [pc EXCEPT ![c] = "decide"]
  /\ UNCHANGED <<issued, last, op, readTS, startIssued, floorRet, maxRet, retried, verdict, flight>>
Decide(c) ==
  /\ pc[c] = "decide"
  /\ IF readTS[c] <= my[c]
     THEN pc' = [pc EXCEPT ![c] = "done"] /\ verdict' = [verdict EXCEPT ![c] = "accepted"] /\ UNCHANGED retried
     ELSE IF RetryOnce /\ ~retried[c]
          THEN retried' = [retried EXCEPT ![c] = TRUE] /\ pc' = [pc EXCEPT ![c] = "check"] /\ UNCHANGED verdict
          ELSE pc' = [pc EXCEPT ![c] = "done"] /\ verdict' = [verdict EXCEPT ![c] = "rejected"] /\ UNCHANGED retried
  /\ UNCHANGED <<issued, last, op, my, readTS, startIssued, floorRet, maxRet, flight>>
Next == \E c \in Callers : Start(c) \/ Alloc(c) \/ Publish(c) \/ Check(c) \/ Wait(c) \/ Decide(c)
Spec == Init /\ [][Next]_vars
LastBounded == last <= issued
LastMonotone == [][last' >= last]_vars
GetOrder == \A c \in Callers : (op[c] = "get" /\ pc[c] = "done") => my[c] > floorRet[c]
AcceptIssuedBefore == \A c \in Callers : (op[c] = "validate" /\ pc[c] = "done" /\ readTS[c] <= startIssued[c]) => verdict[c] = "accepted"
RejectBeyond == \A c \in Callers : (op[c] = "validate" /\ pc[c] = "done" /\ verdict[c] = "accepted") => readTS[c] <= issued
=============================================================================
