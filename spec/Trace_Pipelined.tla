-------------------------- MODULE Trace_Pipelined --------------------------
(* Trace validation for C16 (buffer level): every call on the real PipelinedMemDB with its      *)
(* result, every invocation of the flush function (generation and exact content handed over)     *)
(* and every completion, against Pipelined.tla.  The flush stream rules: generation = previous   *)
(* + 1, never two invocations without a completion in between, the content is exactly the         *)
(* mutable buffer of the model at that moment (each buffered mutation in exactly one flush).       *)
EXTENDS Pipelined, Json, TLC
Trace == ndJsonDeserialize("trace.ndjson")
VARIABLES pos, s, skip
Ev == Trace[pos]
Bad(rule, detail) == PrintT(<<"MISMATCH", pos, rule, detail>>)
Check(cond, rule, detail) == IF cond THEN TRUE ELSE Bad(rule, detail)
SetOf(q) == {q[i] : i \in 1..Len(q)}
Vals(q) == [k \in Keys |-> q[k]]
Apply(st, e) ==
  CASE e.op = "Set" -> Write(st, e.k, e.v)
    [] e.op = "Delete" -> Write(st, e.k, 0)
    [] e.op = "Get" -> Get(st, e.k)
    [] e.op = "GetLocal" -> GetLocal(st, e.k)
    [] e.op = "BatchGet" -> BatchGet(st, SetOf(e.ks))
    [] e.op = "Flush" -> Flush(st, e.force)
    [] e.op = "FlushWait" -> FlushWait(st)
    [] e.op = "Staging" -> Staging(st)
    [] e.op = "Release" -> Release(st)
    [] e.op = "Cleanup" -> Cleanup(st)
Init == pos = 1 /\ s = InitState /\ skip = FALSE
Next ==
  /\ pos <= Len(Trace) /\ pos' = pos + 1
  /\ CASE Ev.ev = "reset" -> s' = [InitState EXCEPT !.minKeys = Ev.minkeys] /\ skip' = FALSE
       [] skip -> UNCHANGED <<s, skip>>
       [] Ev.ev = "op" ->
            LET r == Apply(s, Ev)
                out == IF Ev.op = "BatchGet" THEN Vals(Ev.out) ELSE Ev.out
                ok == r.res = Ev.res /\ (Ev.res \in {"ok", "flushed"} => r.out = out)
            IN /\ Check(ok, "a call on the pipelined buffer differs from the reference model", <<Ev.op, r.res, r.out, Ev.res, Ev.out>>)
               /\ s' = r.s
               \* once the transaction has failed (flush error consumed) or the model disagrees, the rest of the scenario is not judged
               /\ skip' = (~ok \/ r.s.failed)
       [] Ev.ev = "flushcall" ->
            /\ Check(s.running /\ Ev.gen = s.gen, "the flush function was invoked with an unexpected generation or while another flush was running", <<Ev.gen, s.gen, s.running>>)
            /\ Check(Vals(Ev.content) = s.flg, "the content handed to the flush function is not exactly the buffered mutations", <<Ev.gen, Ev.content, s.flg>>)
            /\ UNCHANGED <<s, skip>>
       [] Ev.ev = "flushdone" ->
            /\ Check(s.running, "a flush completed that was not running", Ev.gen)
            /\ s' = FlushDone(s, Ev.ok) /\ UNCHANGED skip
       [] Ev.ev = "hang" -> Bad("a call on the pipelined buffer never returned (the scenario did not end within 30 s)", Ev.scn) /\ UNCHANGED <<s, skip>>
       [] OTHER -> UNCHANGED <<s, skip>>
Spec == Init /\ [][Next]_<<pos, s, skip>>
Done == TLCGet("stats").diameter - 1 = Len(Trace) \/ PrintT(<<"INCOMPLETE", TLCGet("stats").diameter>>)
=============================================================================
