-------------------------- MODULE Gen_BatchStreams --------------------------
(* C18 - behaviours of BatchStreams.tla for replay into the real RPCClient (harness/client).        *)
(* The real client reacts to a broken stream at once and a released answer is delivered at once, so  *)
(* the generator only produces behaviours in which Recreate follows Break and Deliver follows         *)
(* ServerAnswer directly; one stream breaks at a time (the harness drops streams, not connections).   *)
(* Every step carries what the model expects of every caller afterwards: the driver uses it to know   *)
(* whom to wait for; Trace_BatchStreams judges what was observed.                                      *)
EXTENDS BatchStreams, Sequences, Json
CONSTANT MaxDepth
VARIABLES hist, depth
gvars == <<vars, hist, depth>>
Want == [c \in Callers |-> [state |-> state[c]', kind |-> result[c].kind']]
Rec(a, c, s) == hist' = Append(hist, [a |-> a, c |-> c, s |-> s, want |-> Want]) /\ depth' = depth + 1
GenInit == Init /\ hist = <<>> /\ depth = 0
GenNext ==
  /\ depth < MaxDepth
  /\ IF \E s \in Streams : broken[s]
     THEN \E s \in Streams : Recreate(s) /\ Rec("recreate", 0, s)
     ELSE IF wire # {}
     THEN \E w \in wire : Deliver(w) /\ Rec("deliver", w.owner, w.stream)
     ELSE \/ \E c \in Callers : \/ Leave(c) /\ Rec("leave", c, "")
                                \/ Again(c) /\ Rec("again", c, "")
                                \/ \E s \in Streams : Submit(c, s) /\ Rec("submit", c, s)
          \/ \E e \in table : ServerAnswer(e) /\ Rec("answer", e.caller, e.stream)
          \/ \E s \in Streams : Break({s}) /\ Rec("break", 0, s)
  /\ (depth' = MaxDepth => PrintT(<<"SCN", ToJson(hist')>>))
GenSpec == GenInit /\ [][GenNext]_gvars
=============================================================================
