--------------------------- MODULE Trace_MemBuffer ---------------------------
(* Trace validation of the transaction write buffers (art, rbt) and of the union store over    *)
(* them against MemBuffer.tla / UnionStore (C08, C07).  One line per API call with its result  *)
(* and an API-level projection (Get / GetFlags / snapshot Get of every key, Len, Size, Dirty). *)
(* The reference is deterministic.  After the first disagreement inside a scenario the rest of *)
(* that scenario is skipped (the hidden value log cannot be re-synchronised from the API).      *)
EXTENDS MemBuffer, Json
Trace == ndJsonDeserialize("trace.ndjson")
VARIABLES pos, s, cps, snap, skip, impl
tvars == <<pos, s, cps, snap, skip, impl>>
Ev == Trace[pos]
SetOf(q) == {q[i] : i \in 1..Len(q)}
\* union store over the buffer and a fixed snapshot (snap[k] = NoVal: absent)
UVal(st, k) == IF ValOf(st, k) # NoVal THEN ValOf(st, k) ELSE snap[k]
UGet(st, k) == IF UVal(st, k) = NoVal \/ UVal(st, k).n = 0 THEN Ret("notexist", NoVal, st) ELSE Ret("ok", UVal(st, k), st)
UKeys(st, lo, hi) == Asc({k \in Keys(st) : InR(k, lo, hi) /\ UVal(st, k) # NoVal /\ UVal(st, k).n > 0})
UIter(st, lo, hi) == Ret("ok", Pairs(st, UKeys(st, lo, hi), UVal), st)
UIterReverse(st, hi, lo) == Ret("ok", Pairs(st, Rev(UKeys(st, lo, hi)), UVal), st)
Handles(st) == Ret("ok", [i \in 1..Len(IterFlagKeys(st, 0, 0)) |->
                            [k |-> IterFlagKeys(st, 0, 0)[i], v |-> ValOf(st, IterFlagKeys(st, 0, 0)[i]), flags |-> st.flags[IterFlagKeys(st, 0, 0)[i]]]], st)
Apply(st, e) ==
  CASE e.op = "Write" -> Write(st, e.k, e.v, e.ops)
    [] e.op = "Staging" -> Staging(st)
    [] e.op = "Release" -> Release(st, e.h)
    [] e.op = "Cleanup" -> Cleanup(st, e.h)
    [] e.op = "Checkpoint" -> Ret("ok", e.out, st)
    [] e.op = "RevertToCheckpoint" -> RevertToCheckpoint(st, cps[e.cp])
    [] e.op = "SetLimits" -> SetLimits(st, e.entry, e.buffer)
    [] e.op = "Get" -> Get(st, e.k)
    [] e.op = "BatchGet" -> Ret("ok", SelectSeq([i \in 1..Len(e.ks) |-> [k |-> e.ks[i], v |-> ValOf(st, e.ks[i])]], LAMBDA p : p.v # NoVal), st)
    [] e.op = "Iter" -> Iter(st, e.lo, e.hi)
    [] e.op = "IterReverse" -> IterReverse(st, e.hi, e.lo)
    [] e.op = "SnapIter" -> SnapIter(st, e.lo, e.hi)
    [] e.op = "SnapIterReverse" -> SnapIterReverse(st, e.hi, e.lo)
    [] e.op = "InspectStage" -> InspectStage(st, e.h)
    [] e.op = "SelectValueHistory" -> SelectValueHistory(st, e.k, e.n)
    [] e.op = "Handles" -> Handles(st)
    [] e.op = "UGet" -> UGet(st, e.k)
    [] e.op = "UIter" -> UIter(st, e.lo, e.hi)
    [] e.op = "UIterReverse" -> UIterReverse(st, e.hi, e.lo)
    [] e.op = "IterInvalidation" -> LET w == Write(st, e.k, [n |-> 1, b |-> 1], <<>>)
                                   IN Ret(IF w.res \in {"keytoolarge", "entrytoolarge"} THEN "skipped" ELSE IF impl = "art" THEN "panic" ELSE e.res, 0, w.s)
\* logged outputs use lists for flag sets; compare as sets
NormOut(e, o) == IF e.op \in {"InspectStage", "Handles"} THEN [i \in 1..Len(o) |-> [k |-> o[i].k, v |-> o[i].v, flags |-> SetOf(o[i].flags)]] ELSE o
ProjOK(st, p) ==
  /\ \A k \in Keys(st) : /\ ValOf(st, k) = p.vals[k] /\ SnapValOf(st, k) = p.snap[k]
                         /\ st.present[k] = p.present[k] /\ (st.present[k] => st.flags[k] = SetOf(p.flags[k]))
  /\ st.len = p.len /\ st.size = p.size /\ st.dirty = p.dirty /\ (Len(st.stages) > 0) = p.staging
Init == pos = 1 /\ s = EmptyBuf(0, <<>>) /\ cps = <<>> /\ snap = <<>> /\ skip = FALSE /\ impl = "none"
Next ==
  /\ pos <= Len(Trace) /\ pos' = pos + 1
  /\ IF Ev.ev = "reset"
     THEN s' = EmptyBuf(Ev.nkeys, Ev.klen) /\ cps' = <<>> /\ snap' = Ev.snap /\ skip' = FALSE /\ impl' = Ev.impl
     ELSE IF skip THEN UNCHANGED <<s, cps, snap, skip, impl>>
     ELSE LET r == Apply(s, Ev)
              ok == r.res = Ev.res /\ (Ev.res = "panic" \/ (r.out = NormOut(Ev, Ev.out) /\ ProjOK(r.s, Ev.proj) /\ Consistent(r.s)))
          IN /\ IF ok THEN TRUE ELSE PrintT(<<"MISMATCH", pos, impl, Ev.op, r.res, r.out,
                                             [len |-> r.s.len, size |-> r.s.size, dirty |-> r.s.dirty, present |-> r.s.present, flags |-> r.s.flags,
                                              vals |-> [k \in Keys(r.s) |-> ValOf(r.s, k)], snap |-> [k \in Keys(r.s) |-> SnapValOf(r.s, k)]]>>)
             /\ skip' = ~ok
             /\ s' = r.s /\ UNCHANGED <<snap, impl>>
             /\ cps' = IF Ev.op = "Checkpoint" THEN Append(SubSeq(cps, 1, Ev.idx - 1), Len(s.log)) ELSE cps
Spec == Init /\ [][Next]_tvars
Done == TLCGet("stats").diameter - 1 = Len(Trace) \/ PrintT(<<"INCOMPLETE", TLCGet("stats").diameter>>)
=============================================================================
