------------------------------- MODULE Codec -------------------------------
(* C19 - memory-comparable encodings, written from the format definitions                *)
(* (MyRocks memcomparable bytes; sign-flip ordered ints; LEB128 + zig-zag varints;        *)
(* tag-byte comparable varints), not from the Go code.                                    *)
(* 64-bit integers are 8-byte big-endian tuples (two's complement for signed) because     *)
(* TLC integers are 32 bit.  Everything is an executable definition: TLC evaluates it on  *)
(* every input the harness recorded and compares with what the code returned.             *)
EXTENDS Integers, Sequences, FiniteSets

Byte == 0..255
Err == [ok |-> FALSE, val |-> <<>>, rest |-> <<>>]
Ok(v, r) == [ok |-> TRUE, val |-> v, rest |-> r]

Tail_(s, n) == SubSeq(s, n + 1, Len(s))          \* drop the first n elements
Compl(s) == [i \in 1..Len(s) |-> 255 - s[i]]
Zeros(n) == [i \in 1..n |-> 0]

(***************************** byte-string order *****************************)
RECURSIVE LexCmp(_, _)
LexCmp(a, b) == IF Len(a) = 0 THEN (IF Len(b) = 0 THEN 0 ELSE -1)
                ELSE IF Len(b) = 0 THEN 1
                ELSE IF a[1] < b[1] THEN -1
                ELSE IF a[1] > b[1] THEN 1
                ELSE LexCmp(Tail(a), Tail(b))
IsProperPrefix(a, b) == Len(a) < Len(b) /\ SubSeq(b, 1, Len(a)) = a

(************************* memcomparable byte strings ************************)
RECURSIVE EncBytes(_)
EncBytes(d) == IF Len(d) >= 8
               THEN SubSeq(d, 1, 8) \o <<255>> \o EncBytes(Tail_(d, 8))
               ELSE d \o Zeros(8 - Len(d)) \o <<255 - (8 - Len(d))>>
EncBytesDesc(d) == Compl(EncBytes(d))

\* desc = TRUE reads the complemented form: marker is the pad count, pad bytes are 0xFF
RECURSIVE DecBytesG(_, _)
DecBytesG(b, desc) ==
  IF Len(b) < 9 THEN Err
  ELSE LET g    == SubSeq(b, 1, 8)
           m    == b[9]
           pad  == IF desc THEN m ELSE 255 - m
           padb == IF desc THEN 255 ELSE 0
           rest == Tail_(b, 9)
           gv   == IF desc THEN Compl(g) ELSE g
       IN IF pad > 8 THEN Err
          ELSE IF pad = 0
               THEN LET r == DecBytesG(rest, desc)
                    IN IF r.ok THEN Ok(gv \o r.val, r.rest) ELSE Err
               ELSE IF \A i \in (8 - pad + 1)..8 : g[i] = padb
                    THEN Ok(SubSeq(gv, 1, 8 - pad), rest)
                    ELSE Err
DecBytes(b) == DecBytesG(b, FALSE)
DecBytesDesc(b) == DecBytesG(b, TRUE)

(******************************* fixed ints **********************************)
\* V is an 8-byte big-endian tuple
FlipSign(V) == [i \in 1..8 |-> IF i = 1 THEN (V[1] + 128) % 256 ELSE V[i]]
EncInt(V) == FlipSign(V)
EncIntDesc(V) == Compl(FlipSign(V))
EncUint(V) == V
EncUintDesc(V) == Compl(V)
Dec8(b, f(_)) == IF Len(b) < 8 THEN Err ELSE Ok(f(SubSeq(b, 1, 8)), Tail_(b, 8))
DecInt(b) == Dec8(b, FlipSign)
DecIntDesc(b) == Dec8(b, LAMBDA x : FlipSign(Compl(x)))
DecUint(b) == Dec8(b, LAMBDA x : x)
DecUintDesc(b) == Dec8(b, Compl)
\* natural orders on the 8-byte representation
CmpUint(A, B) == LexCmp(A, B)
CmpInt(A, B) == LexCmp(FlipSign(A), FlipSign(B))

(*************************** bits, for the varints ***************************)
Pow2(i) == CASE i = 0 -> 1 [] i = 1 -> 2 [] i = 2 -> 4 [] i = 3 -> 8 [] i = 4 -> 16
             [] i = 5 -> 32 [] i = 6 -> 64 [] i = 7 -> 128
BitOf(n, i) == (n \div Pow2(i)) % 2
\* bit sequence, least significant first: element j is bit j-1
BitsOf(V) == [j \in 1..64 |-> BitOf(V[8 - ((j - 1) \div 8)], (j - 1) % 8)]
ByteAt(B, off) == B[off + 1] + 2 * B[off + 2] + 4 * B[off + 3] + 8 * B[off + 4]
                  + 16 * B[off + 5] + 32 * B[off + 6] + 64 * B[off + 7] + 128 * B[off + 8]
BytesOf(B) == [i \in 1..8 |-> ByteAt(B, (8 - i) * 8)]
BGet(B, j) == IF j >= 1 /\ j <= 64 THEN B[j] ELSE 0
NotBits(B) == [j \in 1..64 |-> 1 - B[j]]
Shl1(B) == [j \in 1..64 |-> IF j = 1 THEN 0 ELSE B[j - 1]]
Shr1(B) == [j \in 1..64 |-> IF j = 64 THEN 0 ELSE B[j + 1]]
BitLen(B) == IF \A j \in 1..64 : B[j] = 0 THEN 0
             ELSE CHOOSE j \in 1..64 : B[j] = 1 /\ \A k \in (j + 1)..64 : B[k] = 0

(************************** LEB128 varint / uvarint **************************)
EncUvarintBits(B) ==
  LET n == IF BitLen(B) = 0 THEN 1 ELSE (BitLen(B) + 6) \div 7
  IN [i \in 1..n |->
        BGet(B, (i - 1) * 7 + 1) + 2 * BGet(B, (i - 1) * 7 + 2) + 4 * BGet(B, (i - 1) * 7 + 3)
        + 8 * BGet(B, (i - 1) * 7 + 4) + 16 * BGet(B, (i - 1) * 7 + 5)
        + 32 * BGet(B, (i - 1) * 7 + 6) + 64 * BGet(B, (i - 1) * 7 + 7)
        + (IF i < n THEN 128 ELSE 0)]
EncUvarint(V) == EncUvarintBits(BitsOf(V))
ZigZag(B) == IF B[64] = 1 THEN NotBits(Shl1(B)) ELSE Shl1(B)
UnZigZag(U) == IF U[1] = 1 THEN NotBits(Shr1(U)) ELSE Shr1(U)
EncVarint(V) == EncUvarintBits(ZigZag(BitsOf(V)))

\* first byte without continuation bit, 0 if none
TermIdx(b) == IF \A i \in 1..Len(b) : b[i] >= 128 THEN 0
              ELSE CHOOSE i \in 1..Len(b) : b[i] < 128 /\ \A k \in 1..(i - 1) : b[k] >= 128
DecUvarintBits(b) ==
  LET k == TermIdx(b)
  IN IF k = 0 \/ k > 10 \/ (k = 10 /\ b[10] > 1) THEN [ok |-> FALSE, bits |-> <<>>, rest |-> <<>>]
     ELSE [ok |-> TRUE,
           bits |-> [j \in 1..64 |-> IF (j - 1) \div 7 + 1 <= k
                                     THEN BitOf(b[(j - 1) \div 7 + 1] % 128, (j - 1) % 7) ELSE 0],
           rest |-> Tail_(b, k)]
DecUvarint(b) == LET r == DecUvarintBits(b) IN IF r.ok THEN Ok(BytesOf(r.bits), r.rest) ELSE Err
DecVarint(b) == LET r == DecUvarintBits(b) IN IF r.ok THEN Ok(BytesOf(UnZigZag(r.bits)), r.rest) ELSE Err

(************************ comparable varint / uvarint ************************)
\* positive: single byte v+8 for v <= 239, else tag 247+n then the n significant bytes
SigBytes(V) == IF \A i \in 1..8 : V[i] = 0 THEN 1
               ELSE 9 - (CHOOSE i \in 1..8 : V[i] # 0 /\ \A k \in 1..(i - 1) : V[k] = 0)
EncCUvarint(V) == LET n == SigBytes(V)
                  IN IF n = 1 /\ V[8] <= 239 THEN <<V[8] + 8>>
                     ELSE <<247 + n>> \o SubSeq(V, 9 - n, 8)
\* negative v: smallest n with v >= -(256^n - 1): upper 8-n bytes all FF and low n bytes not all 0
NegBytes(V) == IF \E n \in 1..7 : (\A i \in 1..(8 - n) : V[i] = 255) /\ (\E i \in (9 - n)..8 : V[i] # 0)
               THEN CHOOSE n \in 1..7 : /\ (\A i \in 1..(8 - n) : V[i] = 255) /\ (\E i \in (9 - n)..8 : V[i] # 0)
                                        /\ \A m \in 1..(n - 1) :
                                             ~((\A i \in 1..(8 - m) : V[i] = 255) /\ (\E i \in (9 - m)..8 : V[i] # 0))
               ELSE 8
EncCVarint(V) == IF V[1] >= 128
                 THEN LET n == NegBytes(V) IN <<8 - n>> \o SubSeq(V, 9 - n, 8)
                 ELSE EncCUvarint(V)

DecCUvarint(b) ==
  IF Len(b) = 0 THEN Err
  ELSE LET f == b[1] r == Tail(b)
       IN IF f < 8 THEN Err
          ELSE IF f <= 247 THEN Ok(Zeros(7) \o <<f - 8>>, r)
          ELSE LET n == f - 247
               IN IF Len(r) < n THEN Err
                  ELSE Ok(Zeros(8 - n) \o SubSeq(r, 1, n), Tail_(r, n))
DecCVarint(b) ==
  IF Len(b) = 0 THEN Err
  ELSE LET f == b[1] r == Tail(b)
       IN IF f >= 8 /\ f <= 247 THEN Ok(Zeros(7) \o <<f - 8>>, r)
          ELSE IF f < 8
               THEN LET n == 8 - f
                    IN IF Len(r) < n THEN Err
                       ELSE LET V == [i \in 1..(8 - n) |-> 255] \o SubSeq(r, 1, n)
                            IN IF V[1] < 128 THEN Err ELSE Ok(V, Tail_(r, n))
               ELSE LET n == f - 247
                    IN IF Len(r) < n THEN Err
                       ELSE LET V == Zeros(8 - n) \o SubSeq(r, 1, n)
                            IN IF V[1] >= 128 THEN Err ELSE Ok(V, Tail_(r, n))

(****************************** properties **********************************)
\* used by MC_Codec on the exhaustive domain and quoted by Trace_Codec on recorded data
RoundTripBytes(d, sfx) == DecBytes(EncBytes(d) \o sfx) = Ok(d, sfx)
RoundTripBytesDesc(d, sfx) == DecBytesDesc(EncBytesDesc(d) \o sfx) = Ok(d, sfx)
OrderBytes(a, b) == LexCmp(EncBytes(a), EncBytes(b)) = LexCmp(a, b)
OrderBytesDesc(a, b) == LexCmp(EncBytesDesc(a), EncBytesDesc(b)) = -LexCmp(a, b)
PrefixFreeBytes(a, b) == a # b => ~IsProperPrefix(EncBytes(a), EncBytes(b))
\* decode is a left inverse of encode on everything it accepts: whatever is accepted denotes
\* exactly the consumed bytes (so a corrupted encoding is rejected or denotes what it now says)
CanonicalBytes(b) == LET r == DecBytes(b) IN r.ok => EncBytes(r.val) \o r.rest = b
=============================================================================
