SPECIFICATION Spec
CONSTANT NKeys = 8
POSTCONDITION Done
CHECK_DEADLOCK FALSE
