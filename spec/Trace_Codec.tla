----------------------------- MODULE Trace_Codec -----------------------------
(* Function validation of util/codec against Codec.tla (C19).  One record per call; the  *)
(* step is always taken, a disagreement is printed as <<"MISMATCH", line, fn, expected>>. *)
EXTENDS Codec, Json, TLC
Trace == ndJsonDeserialize("trace.ndjson")
VARIABLE pos
DecOK(e, r) == /\ e.ok = r.ok
               /\ (r.ok => e.out = r.val /\ e.rest = r.rest)
EncOK(e, enc) == e.out = e.pre \o enc
Sign(n) == IF n < 0 THEN -1 ELSE IF n > 0 THEN 1 ELSE 0
Model(e) ==
  CASE e.fn = "EncodeBytes" -> [k |-> "enc", v |-> EncBytes(e.a)]
    [] e.fn = "DecodeBytes" -> [k |-> "dec", v |-> DecBytes(e.a)]
    [] e.fn = "DecodeBytesDesc" -> [k |-> "dec", v |-> DecBytesDesc(e.a)]
    [] e.fn = "EncodeInt" -> [k |-> "enc", v |-> EncInt(e.a)]
    [] e.fn = "EncodeIntDesc" -> [k |-> "enc", v |-> EncIntDesc(e.a)]
    [] e.fn = "EncodeUint" -> [k |-> "enc", v |-> EncUint(e.a)]
    [] e.fn = "EncodeUintDesc" -> [k |-> "enc", v |-> EncUintDesc(e.a)]
    [] e.fn = "EncodeVarint" -> [k |-> "enc", v |-> EncVarint(e.a)]
    [] e.fn = "EncodeUvarint" -> [k |-> "enc", v |-> EncUvarint(e.a)]
    [] e.fn = "EncodeComparableVarint" -> [k |-> "enc", v |-> EncCVarint(e.a)]
    [] e.fn = "EncodeComparableUvarint" -> [k |-> "enc", v |-> EncCUvarint(e.a)]
    [] e.fn = "DecodeInt" -> [k |-> "dec", v |-> DecInt(e.a)]
    [] e.fn = "DecodeIntDesc" -> [k |-> "dec", v |-> DecIntDesc(e.a)]
    [] e.fn = "DecodeUint" -> [k |-> "dec", v |-> DecUint(e.a)]
    [] e.fn = "DecodeUintDesc" -> [k |-> "dec", v |-> DecUintDesc(e.a)]
    [] e.fn = "DecodeVarint" -> [k |-> "dec", v |-> DecVarint(e.a)]
    [] e.fn = "DecodeUvarint" -> [k |-> "dec", v |-> DecUvarint(e.a)]
    [] e.fn = "DecodeComparableVarint" -> [k |-> "dec", v |-> DecCVarint(e.a)]
    [] e.fn = "DecodeComparableUvarint" -> [k |-> "dec", v |-> DecCUvarint(e.a)]
    [] e.fn = "EncodeIntToCmpUint" -> [k |-> "val", v |-> FlipSign(e.a)]
    [] e.fn = "DecodeCmpUintToInt" -> [k |-> "val", v |-> FlipSign(e.a)]
    [] e.fn = "CmpBytes" -> [k |-> "cmp", v |-> LexCmp(e.a, e.b)]
    [] e.fn = "CmpEnc" -> [k |-> "cmp", v |-> CASE e.kind = "int" -> CmpInt(e.a, e.b)
                                                 [] e.kind = "intdesc" -> -CmpInt(e.a, e.b)
                                                 [] e.kind = "uint" -> CmpUint(e.a, e.b)
                                                 [] e.kind = "uintdesc" -> -CmpUint(e.a, e.b)
                                                 [] OTHER -> 0]
Holds(e) == LET m == Model(e)
            IN /\ ~e.panic
               /\ CASE m.k = "enc" -> EncOK(e, m.v)
                    [] m.k = "dec" -> DecOK(e, m.v)
                    [] m.k = "val" -> e.out = m.v
                    [] m.k = "cmp" -> Sign(e.cmp) = m.v /\ (e.a # e.b => ~e.pfx)
Init == pos = 1
Next == /\ pos <= Len(Trace)
        /\ IF Holds(Trace[pos]) THEN TRUE
           ELSE PrintT(<<"MISMATCH", pos, Trace[pos].fn, Model(Trace[pos]).v>>)
        /\ pos' = pos + 1
Spec == Init /\ [][Next]_pos
Done == TLCGet("stats").diameter - 1 = Len(Trace) \/ PrintT(<<"INCOMPLETE", TLCGet("stats").diameter>>)
=============================================================================
