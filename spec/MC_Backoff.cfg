SPECIFICATION MCSpec
CONSTANTS ExcludedLimit = 3000 MaxOps = 5 MaxBos = 3
INVARIANTS WithinBudget ExcludedBounded Accounting
PROPERTIES ForkStartsFromParent MergeExact StopsAtOnce
CHECK_DEADLOCK FALSE
