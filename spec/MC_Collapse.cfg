SPECIFICATION Spec
CONSTANTS Callers = {1, 2, 3} CKeys = {1, 2} Bodies = {1, 2} SameKeySameBody = TRUE MaxCalls = 4
INVARIANTS OwnKey OwnBody FlightsOK Attached
PROPERTY Returns
CHECK_DEADLOCK FALSE
