SPECIFICATION Spec
CONSTANTS Replicas = {1, 2, 3} MaxAttempt = 2 Budget = 3 ChanceOnce = FALSE
INVARIANTS NoFabrication BudgetNeverNegative RetryMarked
PROPERTY Terminates
CHECK_DEADLOCK FALSE
