---- MODULE MC_Percolator ----
EXTENDS Percolator
mcKey == {"a", "b"}
mcWriter == {"w1", "w2"}
mcKeysOf == [w \in mcWriter |-> {"a", "b"}]
mcPrimary == [w \in mcWriter |-> IF w = "w1" THEN "a" ELSE "b"]
====
