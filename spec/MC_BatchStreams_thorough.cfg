SPECIFICATION Spec
CONSTANTS Callers = {1, 2, 3} Streams = {"direct", "fwd", "fwd2"} MaxGen = 3 MaxId = 5 FailOnStale = TRUE
INVARIANTS OwnResponse IdsUnique NoOrphans NoDeadPending EpochOK
CONSTRAINT Bound
CHECK_DEADLOCK FALSE
