SPECIFICATION Spec
CONSTANTS Keys = {1, 2, 3} P = 1 KeepAsyncOnFallback = TRUE DefiniteOnLost = FALSE
INVARIANTS OneOutcome AckHolds FailHolds
CHECK_DEADLOCK FALSE
