SPECIFICATION Spec
CONSTANTS P = 5 FixedMerger = TRUE
INVARIANTS Cover InOrder
CHECK_DEADLOCK FALSE
