SPECIFICATION Spec
CONSTANT FixedMerger = TRUE
POSTCONDITION Done
CHECK_DEADLOCK FALSE
