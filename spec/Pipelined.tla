------------------------------ MODULE Pipelined ------------------------------
(* C16 - reference model of the pipelined write buffer (internal/unionstore/pipelined_memdb.go) *)
(* Three tiers: the mutable buffer, the buffer being flushed (kept until its result has been    *)
(* consumed), and the store tier holding what earlier flushes wrote.  A value is a positive     *)
(* integer, 0 is a deletion (tombstone), Absent means the tier knows nothing about the key.     *)
(* P-spec of a read: the first tier, in that order, that knows the key (the batch-get cache of   *)
(* the implementation is an optimisation and must not be observable).                            *)
(* Flush protocol: Flush(force) first consumes the result of the flush in flight (an error fails *)
(* the transaction), then hands the whole mutable buffer to the flush function under the next     *)
(* generation and starts a fresh mutable buffer; FlushWait only consumes.  A successful flush     *)
(* function applies its buffer to the store tier.                                                  *)
EXTENDS Integers, Sequences, FiniteSets
CONSTANT Keys
Absent == -1
Empty == [k \in Keys |-> Absent]
NoBuf == [k \in Keys |-> -2]          \* "there is no buffer being flushed"
InitState == [mut |-> Empty, flg |-> NoBuf, store |-> Empty, gen |-> 0, running |-> FALSE, result |-> "none", failed |-> FALSE, staging |-> 0,
              minKeys |-> 1000, stages |-> <<>>]
HasFlg(s) == s.flg # NoBuf
Latest(s, k) == IF s.mut[k] # Absent THEN s.mut[k] ELSE IF HasFlg(s) /\ s.flg[k] # Absent THEN s.flg[k] ELSE s.store[k]
Local(s, k) == IF s.mut[k] # Absent THEN s.mut[k] ELSE IF HasFlg(s) /\ s.flg[k] # Absent THEN s.flg[k] ELSE Absent
Count(b) == Cardinality({k \in Keys : b[k] # Absent})
Overlay(base, top) == [k \in Keys |-> IF top[k] # Absent THEN top[k] ELSE base[k]]
Ret(res, out, s) == [res |-> res, out |-> out, s |-> s]
Write(s, k, v) == Ret("ok", 0, [s EXCEPT !.mut[k] = v])
Get(s, k) == IF Latest(s, k) = Absent THEN Ret("notexist", 0, s) ELSE Ret("ok", Latest(s, k), s)
GetLocal(s, k) == IF Local(s, k) = Absent THEN Ret("notexist", 0, s) ELSE Ret("ok", Local(s, k), s)
BatchGet(s, ks) == Ret("ok", [k \in Keys |-> IF k \in ks THEN Latest(s, k) ELSE Absent], s)
NeedFlush(s) == Count(s.mut) >= s.minKeys /\ ~s.running
\* consuming the result of the flush in flight (the driver has let it finish before)
Consume(s) == [s EXCEPT !.flg = NoBuf, !.result = "none", !.failed = (s.result = "err")]
Flush(s, force) ==
  IF s.staging > 0 THEN Ret("staging", 0, s)
  ELSE IF ~force /\ ~NeedFlush(s) THEN Ret("noflush", 0, s)
  ELSE IF HasFlg(s) /\ s.result = "err" THEN Ret("err", 0, Consume(s))
  ELSE Ret("flushed", s.gen + 1, [s EXCEPT !.flg = s.mut, !.mut = Empty, !.gen = s.gen + 1, !.running = TRUE, !.result = "none"])
\* staging: a stage remembers the mutable buffer as it was; Release keeps the writes made since, Cleanup undoes them
Staging(s) == Ret("ok", 0, [s EXCEPT !.staging = @ + 1, !.stages = Append(@, s.mut)])
Release(s) == Ret("ok", 0, [s EXCEPT !.staging = @ - 1, !.stages = SubSeq(@, 1, Len(@) - 1)])
Cleanup(s) == Ret("ok", 0, [s EXCEPT !.staging = @ - 1, !.mut = s.stages[Len(s.stages)], !.stages = SubSeq(@, 1, Len(@) - 1)])
FlushWait(s) == IF HasFlg(s) THEN Ret(IF s.result = "err" THEN "err" ELSE "ok", 0, Consume(s)) ELSE Ret("ok", 0, s)
\* the flush function returns: a success applies the buffer to the store tier
FlushDone(s, ok) == [s EXCEPT !.running = FALSE, !.result = (IF ok THEN "ok" ELSE "err"), !.store = (IF ok THEN Overlay(s.store, s.flg) ELSE s.store)]
=============================================================================
