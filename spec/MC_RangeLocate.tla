--------------------------- MODULE MC_RangeLocate ---------------------------
(* Every layout over the key points 1..P, every cache content drawn from the current layout   *)
(* (each region absent / usable / TTL-expired / marked for reload), every list of up to three   *)
(* ascending disjoint ranges (the last one possibly unbounded): the I-spec's answer covers      *)
(* every requested range.  One combination per state (chosen in the first step).                *)
EXTENDS RangeLocate, TLC, SequencesExt
CONSTANT P
VARIABLES ph, q
Splits == 2..P
Asc(S) == SetToSortSeq(S, <)
PD(L) == LET b == Asc(L \cup {0}) IN
         [i \in 1..Len(b) |-> [id |-> i, lo |-> b[i], hi |-> IF i = Len(b) THEN 0 ELSE b[i + 1]]]
Flags == {"absent", "ok", "expired", "reload"}
CacheOf(pd, f) == LET keep == SelectSeq(pd, LAMBDA r : f[r.id] # "absent") IN
                  [i \in 1..Len(keep) |-> [id |-> keep[i].id, lo |-> keep[i].lo, hi |-> keep[i].hi,
                                            expired |-> f[keep[i].id] = "expired", reload |-> f[keep[i].id] = "reload"]]
Single == {[lo |-> s, hi |-> e] : s \in 0..P, e \in 1..P} \cup {[lo |-> s, hi |-> 0] : s \in 0..P}
Valid(r) == r.hi = 0 \/ r.lo < r.hi
RangeLists ==
  {<<a>> : a \in {r \in Single : Valid(r)}} \cup
  {<<a, b>> : a \in {r \in Single : Valid(r) /\ r.hi # 0}, b \in {r \in Single : Valid(r)}} \cup
  {<<a, b, c>> : a \in {r \in Single : Valid(r) /\ r.hi # 0}, b \in {r \in Single : Valid(r) /\ r.hi # 0}, c \in {r \in Single : Valid(r) /\ (r.hi = 0 \/ r.hi = P)}}
Sorted(rs) == \A i \in 1..(Len(rs) - 1) : rs[i].hi <= rs[i + 1].lo
Init == ph = "init" /\ q = [pd |-> <<>>, cache |-> <<>>, ranges |-> <<>>, res |-> <<>>]
Next ==
  /\ ph = "init" /\ ph' = "done"
  /\ \E L \in SUBSET Splits : \E f \in [1..(Cardinality(L) + 1) -> Flags] : \E rs \in {x \in RangeLists : Sorted(x)} :
       LET pd == PD(L) cache == CacheOf(pd, f) IN
       q' = [pd |-> pd, cache |-> cache, ranges |-> rs, res |-> BatchLocate(cache, pd, rs)]
Spec == Init /\ [][Next]_<<ph, q>>
Cover == ph = "done" => CoversAll(q.res, q.ranges, P)
InOrder == ph = "done" => \A i, j \in 1..Len(q.res) : i < j => q.res[i].lo < q.res[j].lo
=============================================================================
