SPECIFICATION Spec
CONSTANTS Callers = {1, 2, 3} MaxIssue = 4 RetryOnce = FALSE
INVARIANTS LastBounded GetOrder AcceptIssuedBefore RejectBeyond
PROPERTY LastMonotone
CHECK_DEADLOCK FALSE
