------------------------------- MODULE OnePC -------------------------------
(* I-spec of one-phase commit as client-go drives it (txnkv/transaction/prewrite.go, 2pc.go).       *)
(* A transaction whose mutations fit one prewrite request asks the store to commit it at once: the   *)
(* store either commits every key with a commit ts of its own choosing (above every read it has       *)
(* served) and says so, or - the ceiling the client sent cannot be met - falls back: it writes        *)
(* ordinary locks and answers "not committed in one phase", and the client goes on with two-phase     *)
(* commit (and must give up async commit as well: the locks the store wrote are not async-commit      *)
(* locks).  The single prewrite is the commit point: an answer that is lost leaves the outcome        *)
(* unknown.                                                                                           *)
(* Variants that must fail (both were sub-agents' seeded changes, C03-m3 / C03-m4):                   *)
(*   KeepAsyncOnFallback = TRUE - after a fall-back the committer still believes in async commit      *)
(*        and announces success right after the prewrite; a resolver that finds the ordinary          *)
(*        primary lock expired rolls the transaction back: AckHolds fails.                            *)
(*   DefiniteOnLost = TRUE - a lost prewrite answer is reported as a definite failure although the    *)
(*        store committed: FailHolds fails.                                                           *)
EXTENDS Integers, FiniteSets, TLC
CONSTANTS Keys, P, KeepAsyncOnFallback, DefiniteOnLost
ASSUME P \in Keys
VARIABLES lock,     \* lock[k]: "none" | "plain"   (a fall-back writes ordinary locks)
          write,    \* write[k]: 0 nothing, -1 rollback record, c > 0 committed at c
          cstate,   \* "start" | "fellback" | "acked" | "failed" | "undetermined" | "dead"
          cts,      \* commit ts the committer announced / uses
          clk       \* the store's clock (source of 1PC commit ts and of the committer's 2PC commit ts)
vars == <<lock, write, cstate, cts, clk>>
Init == /\ lock = [k \in Keys |-> "none"] /\ write = [k \in Keys |-> 0] /\ cstate = "start" /\ cts = 0 /\ clk = 1
\* ---- the one prewrite request --------------------------------------------------------------------------------
\* the store commits in one phase and the committer learns it
OnePCDone ==
  /\ cstate = "start" /\ clk' = clk + 1 /\ write' = [k \in Keys |-> clk + 1] /\ cts' = clk + 1 /\ cstate' = "acked"
  /\ UNCHANGED lock
\* ... commits in one phase, the answer is lost (or says "undetermined")
OnePCLost ==
  /\ cstate = "start" /\ clk' = clk + 1 /\ write' = [k \in Keys |-> clk + 1]
  /\ cstate' = IF DefiniteOnLost THEN "failed" ELSE "undetermined"
  /\ UNCHANGED <<lock, cts>>
\* the request never reaches the store
RequestLost ==
  /\ cstate = "start" /\ cstate' = IF DefiniteOnLost THEN "failed" ELSE "undetermined"
  /\ UNCHANGED <<lock, write, cts, clk>>
\* the store falls back: ordinary locks, "not committed in one phase"
FallBack ==
  /\ cstate = "start" /\ lock' = [k \in Keys |-> "plain"]
  /\ IF KeepAsyncOnFallback
     THEN cstate' = "acked" /\ clk' = clk + 1 /\ cts' = clk + 1     \* "every key is locked, so it is committed": announces success
     ELSE cstate' = "fellback" /\ UNCHANGED <<clk, cts>>
  /\ UNCHANGED write
\* ---- two-phase commit after the fall-back ------------------------------------------------------------------------
CommitPrimary ==
  /\ cstate \in {"fellback", "acked"} /\ lock[P] = "plain"
  /\ IF cstate = "fellback" THEN clk' = clk + 1 /\ cts' = clk + 1 ELSE UNCHANGED <<clk, cts>>
  /\ write' = [write EXCEPT ![P] = IF cstate = "fellback" THEN clk + 1 ELSE cts] /\ lock' = [lock EXCEPT ![P] = "none"]
  /\ cstate' = "acked"
\* the primary's lock is gone (a resolver rolled it back): a definite failure
CommitPrimaryRefused ==
  /\ cstate = "fellback" /\ lock[P] = "none" /\ write[P] = -1 /\ cstate' = "failed"
  /\ UNCHANGED <<lock, write, cts, clk>>
CommitSecondary(k) ==
  /\ cstate = "acked" /\ k # P /\ lock[k] = "plain" /\ write[P] > 0
  /\ write' = [write EXCEPT ![k] = write[P]] /\ lock' = [lock EXCEPT ![k] = "none"]
  /\ UNCHANGED <<cstate, cts, clk>>
Cleanup(k) ==
  /\ cstate = "failed" /\ lock[k] = "plain" /\ write' = [write EXCEPT ![k] = -1] /\ lock' = [lock EXCEPT ![k] = "none"]
  /\ UNCHANGED <<cstate, cts, clk>>
Crash == cstate \in {"start", "fellback", "acked", "failed", "undetermined"} /\ cstate' = "dead" /\ UNCHANGED <<lock, write, cts, clk>>
\* ---- a resolver that considers the ordinary locks expired: the primary decides -----------------------------------
ResolvePrimary ==
  /\ lock[P] = "plain" /\ write' = [write EXCEPT ![P] = -1] /\ lock' = [lock EXCEPT ![P] = "none"]
  /\ UNCHANGED <<cstate, cts, clk>>
ResolveSecondary(k) ==
  /\ k # P /\ lock[k] = "plain" /\ lock[P] = "none" /\ write[P] # 0
  /\ write' = [write EXCEPT ![k] = write[P]] /\ lock' = [lock EXCEPT ![k] = "none"]
  /\ UNCHANGED <<cstate, cts, clk>>
Next == \/ OnePCDone \/ OnePCLost \/ RequestLost \/ FallBack \/ CommitPrimary \/ CommitPrimaryRefused \/ Crash \/ ResolvePrimary
        \/ \E k \in Keys : CommitSecondary(k) \/ Cleanup(k) \/ ResolveSecondary(k)
Spec == Init /\ [][Next]_vars
Committed == {k \in Keys : write[k] > 0}
RolledBack == {k \in Keys : write[k] = -1}
OneOutcome == (Committed = {} \/ RolledBack = {}) /\ \A a, b \in Committed : write[a] = write[b]
\* success was announced (cts is only set when it is): nothing is rolled back, every committed key carries the announced ts
AckHolds == cts > 0 => RolledBack = {} /\ \A k \in Committed : write[k] = cts
FailHolds == cstate = "failed" => Committed = {}
=============================================================================
