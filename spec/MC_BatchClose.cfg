SPECIFICATION Spec
CONSTANTS Callers = {1, 2, 3} Async = {1, 2} Limit = 1 FixedClose = TRUE
INVARIANTS TypeOK AsyncReturns
PROPERTY AsyncReturnsEventually
CHECK_DEADLOCK FALSE
