----------------------------- MODULE TxnHistory -----------------------------
(* Property-level monitor of recorded transactional executions (C01, C02, C03, C06; the store   *)
(* projection is bound from the trace after every RPC - B3 - so nothing about the store is       *)
(* guessed).  One line per event: API call / return, RPC (with the store's lock and write        *)
(* records of every key after it), clock advance, crash, drained, final.  `Truth` is the final   *)
(* projection of the run (after all locks were resolved); the harness copies it into the run's   *)
(* reset line so that earlier reads can be judged against it.                                    *)
(* A rule that does not hold is printed as <<"MISMATCH", line, rule, detail>>; the monitor goes  *)
(* on (its state is a function of the log only).                                                 *)
EXTENDS Integers, Sequences, FiniteSets, TLC, Json
CONSTANT NKeys
Trace == ndJsonDeserialize("trace.ndjson")
Key == 1..NKeys
MaxTs == 2147483647
VARIABLES pos, truth, proj, txns, held, acked, hasTruth, kind, lossless, lostCommit, fixp
hvars == <<pos, truth, proj, txns, held, acked, hasTruth, kind, lossless, lostCommit, fixp>>
Ev == Trace[pos]
SetOf(q) == {q[i] : i \in 1..Len(q)}
Ext(f, k, v) == [x \in DOMAIN f \cup {k} |-> IF x = k THEN v ELSE f[x]]
EmptyProj == [lock |-> [k \in Key |-> [ts |-> 0, primary |-> 0, kind |-> "None"]], writes |-> [k \in Key |-> <<>>]]
Recs(p, k) == SetOf(p.writes[k])
Data(p, k) == {w \in Recs(p, k) : w.type \in {"Put", "Del"}}
LatestOf(S) == CHOOSE w \in S : \A x \in S : x.commit <= w.commit
\* value of k visible at ts in projection p (0 = none)
Visible(p, k, ts) == LET S == {w \in Data(p, k) : w.commit <= ts}
                     IN IF S = {} THEN 0 ELSE IF LatestOf(S).type = "Put" THEN LatestOf(S).val ELSE 0
OwnRecs(p, k, start) == {w \in Recs(p, k) : w.start = start}
HasCommit(p, k, start) == \E w \in OwnRecs(p, k, start) : w.type # "Rollback"
HasCommitAt(p, k, start, ts) == \E w \in OwnRecs(p, k, start) : w.type # "Rollback" /\ w.commit <= ts
HasRollback(p, k, start) == \E w \in OwnRecs(p, k, start) : w.type = "Rollback"
LockedBy(p, k, start) == p.lock[k].ts = start
CommitTsSet(p, start) == {w.commit : w \in {x \in UNION {Recs(p, k) : k \in Key} : x.start = start /\ x.type # "Rollback"}}

\* a transaction record
NewTxn(cl, start, pess, beginSeq) ==
  [client |-> cl, start |-> start, pess |-> pess, buf |-> [k \in Key |-> -1], inserted |-> {}, lockfts |-> [k \in Key |-> 0],
   state |-> "open", ack |-> "none", commit |-> 0, wrote |-> {}, beginSeq |-> beginSeq, lockfail |-> FALSE]
\* what a read of k by transaction t must return: its own buffered write, else the committed value at its start ts
Expected(t, k) == IF txns[t].buf[k] >= 0 THEN txns[t].buf[k] ELSE Visible(truth, k, txns[t].start)
InRange(k, lo, hi) == (lo = 0 \/ k >= lo) /\ (hi = 0 \/ k < hi)
RECURSIVE Asc(_)
Asc(S) == IF S = {} THEN <<>> ELSE LET m == CHOOSE x \in S : \A y \in S : x <= y IN <<m>> \o Asc(S \ {m})
Rev(q) == [i \in 1..Len(q) |-> q[Len(q) + 1 - i]]
ExpectedPairs(t, ks) == [i \in 1..Len(ks) |-> [k |-> ks[i], val |-> Expected(t, ks[i])]]
PairVal(pairs, k) == IF \E j \in 1..Len(pairs) : pairs[j].k = k THEN pairs[CHOOSE j \in 1..Len(pairs) : pairs[j].k = k].val ELSE 0
Bad(rule, detail) == PrintT(<<"MISMATCH", pos, rule, detail>>)
Check(cond, rule, detail) == IF cond THEN TRUE ELSE Bad(rule, detail)

(******************************* per-state rules (C02) *******************************)
TsOfInterest(p) == {MaxTs} \cup UNION {{w.commit, w.commit - 1} : w \in UNION {Recs(p, k) : k \in Key}}
\* some key shows the transaction's write at ts while another key it wrote shows neither its write nor its lock
PartialAt(p, t, ts) == \E k1, k2 \in txns[t].wrote :
                          /\ HasCommitAt(p, k1, txns[t].start, ts)
                          /\ ~HasCommitAt(p, k2, txns[t].start, ts) /\ ~LockedBy(p, k2, txns[t].start)
SplitOutcome(p, t) == \E k1, k2 \in txns[t].wrote : HasCommit(p, k1, txns[t].start) /\ HasRollback(p, k2, txns[t].start)
StateRules(p) ==
  /\ \A t \in DOMAIN txns : txns[t].wrote # {} =>
        /\ Check(\A ts \in TsOfInterest(p) : ~PartialAt(p, t, ts), "atomicity: a snapshot shows some of the transaction's keys updated and others not", t)
        /\ Check(~SplitOutcome(p, t), "single outcome: committed on one key and rolled back on another", t)
  /\ \A k \in Key : \A w1, w2 \in Recs(p, k) :
        Check(~(w1.start = w2.start /\ w1.type = "Rollback" /\ w2.type # "Rollback"), "a transaction is both committed and rolled back on a key", <<k, w1.start>>)
\* nothing else commits on a key between a successful locking read and the locker's end
HeldRule(newp) ==
  \A h \in held : \A w \in Recs(newp, h.k) \ Recs(proj, h.k) :
     Check(w.type = "Rollback" \/ w.start = txns[h.t].start, "a foreign commit landed on a key held by a pessimistic lock", <<h.t, h.k, w>>)

(******************************* snapshot reads (C05) *******************************)
KeysOfPairs(ps) == [i \in 1..Len(ps) |-> ps[i].k]
SnapRule(e) ==
  /\ (kind \in {"c05", "c14"} /\ e.class \notin {"nil", "notfound"}) =>
        Bad("a snapshot read over finished transactions' locks failed instead of resolving them", <<e.c, e.class, e.ts>>)
  /\ (hasTruth /\ e.ts # MaxTs /\ e.class \in {"nil", "notfound"}) =>
       CASE e.c = "snap_get" ->
              IF e.class = "nil" THEN Check(e.val = Visible(truth, e.k, e.ts) /\ e.val # 0, "snapshot get differs from the committed history at its timestamp", <<e.k, e.ts, e.val, Visible(truth, e.k, e.ts)>>)
              ELSE Check(Visible(truth, e.k, e.ts) = 0, "snapshot get found nothing although the history holds a value", <<e.k, e.ts, Visible(truth, e.k, e.ts)>>)
         [] e.c = "snap_batchget" ->
              /\ \A k \in SetOf(e.ks) : Check(PairVal(e.pairs, k) = Visible(truth, k, e.ts), "snapshot batch get differs from the committed history", <<k, e.ts, e.pairs>>)
              /\ Check(SetOf(KeysOfPairs(e.pairs)) \subseteq SetOf(e.ks), "snapshot batch get returned a key that was not asked for", <<e.ks, e.pairs>>)
         [] e.c \in {"snap_iter", "snap_riter"} ->
              LET ks == Asc({k \in Key : InRange(k, e.lo, e.hi) /\ Visible(truth, k, e.ts) # 0})
                  order == IF e.c = "snap_iter" THEN ks ELSE Rev(ks)
                  want == [i \in 1..Len(order) |-> [k |-> order[i], val |-> Visible(truth, order[i], e.ts)]]
              \* key-only scans: only the keys are compared (a store may or may not strip the values)
              IN Check(IF e.keyonly THEN KeysOfPairs(e.pairs) = KeysOfPairs(want) ELSE e.pairs = want, "snapshot scan differs from the committed history (content, order or bounds)", <<e.c, e.lo, e.hi, e.ts, e.batch, e.pairs, want>>)
(******************************* GC lock resolution (C14) *******************************)
GCRule(e) ==
  e.class = "nil" =>
    /\ \A k \in Key : Check(e.proj.lock[k].ts = 0 \/ e.proj.lock[k].ts > e.safepoint, "a lock at or below the safe point remains after GC lock resolution", <<k, e.proj.lock[k], e.safepoint>>)
    /\ \A k \in Key : Check(Recs(fixp, k) \subseteq Recs(e.proj, k), "GC lock resolution removed or changed an existing record", <<k>>)
    /\ \A k \in Key :
         LET l == fixp.lock[k] IN
         (l.ts # 0 /\ l.ts <= e.safepoint /\ l.primary \in Key) =>
            IF HasCommit(fixp, l.primary, l.ts)
            THEN LET c == (CHOOSE w \in OwnRecs(fixp, l.primary, l.ts) : w.type # "Rollback").commit
                 IN Check(l.kind = "Pessimistic" \/ \E w \in OwnRecs(e.proj, k, l.ts) : w.type # "Rollback" /\ w.commit = c,
                          "GC did not commit a secondary of a committed transaction with its commit ts", <<k, l, c>>)
            ELSE Check(~HasCommit(e.proj, k, l.ts), "GC committed a lock of a transaction that was not committed", <<k, l>>)

RangeTaskRule(e) ==
  \* the sub-ranges handed to the handler, ordered by start: consecutive, non-overlapping, exactly covering [lo, hi)
  /\ (e.class = "nil" /\ ~e.failed_handler) =>
        LET r == e.ranges IN
        /\ Check(Len(r) > 0, "the range task handed no sub-range to its handler", <<e.lo, e.hi>>)
        /\ Len(r) > 0 =>
             /\ Check(r[1].s = e.lo, "the first sub-range does not start at the requested start", <<e.lo, e.hi, r>>)
             /\ Check(r[Len(r)].e = e.hi, "the last sub-range does not end at the requested end", <<e.lo, e.hi, r>>)
             /\ Check(\A i \in 1..(Len(r) - 1) : r[i].e = r[i + 1].s /\ r[i].e # 0, "sub-ranges are not consecutive (gap or overlap)", <<e.lo, e.hi, r>>)
             /\ Check(\A i \in 1..Len(r) : r[i].e = 0 \/ r[i].s < r[i].e, "an empty or inverted sub-range was handed out", <<e.lo, e.hi, r>>)
  /\ e.failed_handler => Check(e.class # "nil", "the range task reported success although a sub-range failed", <<e.lo, e.hi>>)
DeleteRangeRule(e) ==
  e.class = "nil" =>
    \A k \in Key :
       IF InRange(k, e.lo, e.hi)
       THEN Check(e.proj.writes[k] = <<>> /\ e.proj.lock[k].ts = 0, "delete-range left data of a key inside the range", <<k, e.lo, e.hi>>)
       ELSE Check(e.proj.writes[k] = e.before.writes[k] /\ e.proj.lock[k] = e.before.lock[k], "delete-range touched a key outside the range", <<k, e.lo, e.hi>>)
SafePointRule(e) ==
  \A c \in {e.get, e.batchget, e.scan} :
     /\ e.ts < e.sp => Check(c = "abortedbygc", "a snapshot read below the learned transaction safe point was served", <<e.ts, e.sp, c>>)
     /\ e.ts >= e.sp => Check(c # "abortedbygc", "a snapshot read at or above the safe point was refused", <<e.ts, e.sp, c>>)
\* the safe point moved above the snapshot while its scan was under way: a batch fetched afterwards is a read below it
\* (batch size 2: at most the two pairs of the batch fetched before the update may still be delivered)
MidScanRule(e) ==
  /\ e.fetches > 0 => Check(e.scan = "abortedbygc", "a scan batch fetched below the newly learned transaction safe point was served", <<e.ts, e.sp, e.scan, e.fetches>>)
  /\ Check(e.later <= 2, "a scan delivered pairs fetched after the safe point had passed its timestamp", <<e.ts, e.sp, e.later>>)

(******************************* end-of-run rules *******************************)
FinalRules ==
  /\ \A k \in Key : Check(truth.lock[k].ts = 0, "a lock remains after recovery", <<k, truth.lock[k]>>)
  /\ \A t \in DOMAIN txns :
       LET T == txns[t]
           cs == CommitTsSet(truth, T.start)
       IN /\ Check(Cardinality(cs) <= 1, "one transaction, several commit timestamps", <<t, cs>>)
          /\ Check(\A c \in cs : c > T.start, "commit ts not above start ts", <<t, cs>>)
          /\ T.ack = "nil" =>
               /\ Check(\A k \in T.wrote : HasCommit(truth, k, T.start), "acknowledged commit is not (fully) committed", <<t, T.wrote>>)
               /\ Check(cs \subseteq {T.commit}, "commit ts in the store differs from the one reported by the API", <<t, cs, T.commit>>)
               /\ Check(\A k \in T.wrote : \A w \in OwnRecs(truth, k, T.start) :
                          w.type = "Rollback" \/ (T.buf[k] > 0 /\ w.type = "Put" /\ w.val = T.buf[k]) \/ (T.buf[k] = 0 /\ w.type = "Del"),
                        "committed record differs from the buffered write", t)
          /\ T.ack \in {"other", "rollback"} =>
               Check(\A k \in Key : ~HasCommit(truth, k, T.start), "a transaction that was reported failed / rolled back is visible", t)
          /\ T.state = "open" => Check(\A k \in Key : ~HasCommit(truth, k, T.start), "a transaction that never called Commit is visible", t)
          \* all-or-nothing in the final truth
          /\ T.wrote # {} => Check((\A k \in T.wrote : HasCommit(truth, k, T.start)) \/ (\A k \in T.wrote : ~HasCommit(truth, k, T.start)),
                                   "final state is partial", t)
          \* insert: the key had no value just below the commit point
          /\ \A k \in T.inserted : (HasCommit(truth, k, T.start) /\ T.buf[k] > 0) =>
               Check(\A c \in cs : Visible([truth EXCEPT !.writes[k] = SelectSeq(@, LAMBDA w : w.start # T.start)], k, c) = 0,
                     "an insert committed over an existing value", <<t, k>>)
  \* write-write: an earlier committed writer of k committed before the later one's conflict point (start ts, or the
  \* for-update ts at which the later one locked k)
  /\ \A k \in Key : \A w1, w2 \in Data(truth, k) :
       (w1.commit < w2.commit /\ \E t \in DOMAIN txns : txns[t].start = w2.start) =>
          LET t2 == CHOOSE t \in DOMAIN txns : txns[t].start = w2.start
              point == IF txns[t2].lockfts[k] > 0 THEN txns[t2].lockfts[k] ELSE w2.start
          \* a pessimistic transaction that writes a key it never locked asks the store for no conflict check on it
          \* (pessimistic action "skip"): the protection is the application's lock, so the rule is not applied there
          IN (txns[t2].pess /\ txns[t2].lockfts[k] = 0) \/
             Check(w1.commit <= point, "two committed writers of a key overlap (lost update)", <<k, w1, w2, point>>)
  \* external consistency: acknowledged before the other began => visible to it
  /\ \A a \in acked : \A t \in DOMAIN txns :
       (txns[t].beginSeq > a.seq) => Check(txns[t].start >= a.commit, "a transaction began after an acknowledged commit but has a smaller start ts", <<t, a>>)

(********************************** events **********************************)
Init == pos = 1 /\ truth = EmptyProj /\ proj = EmptyProj /\ txns = <<>> /\ held = {} /\ acked = {} /\ hasTruth = FALSE /\ kind = "none" /\ lossless = FALSE /\ lostCommit = {} /\ fixp = EmptyProj
Unch == UNCHANGED <<truth, proj, txns, held, acked, hasTruth, kind, lossless, lostCommit, fixp>>
Next ==
  /\ pos <= Len(Trace) /\ pos' = pos + 1
  /\ LET e == Ev IN
     CASE e.ev = "reset" ->
            /\ truth' = e.truth /\ hasTruth' = e.hastruth /\ proj' = EmptyProj /\ txns' = <<>> /\ held' = {} /\ acked' = {} /\ kind' = e.kind /\ lossless' = e.lossless /\ lostCommit' = {} /\ fixp' = EmptyProj
       [] e.ev = "rpc" ->
            \* a commit-point request (2PC: Commit; async commit and 1PC: every Prewrite that asks for them) whose outcome the client could not learn
            LET commitPoint == e.cmd = "Commit" \/ (e.cmd = "Prewrite" /\ (e.req.async \/ e.req.onepc))
                lost == IF commitPoint /\ e.fault \in {"drop_req", "drop_resp", "crash_before", "crash_after", "undetermined"} THEN {e.req.start} ELSE {}
            IN IF e.executed
               THEN /\ (kind # "c14rt" => StateRules(e.proj)) /\ HeldRule(e.proj) /\ proj' = e.proj /\ lostCommit' = lostCommit \cup lost
                    /\ UNCHANGED <<truth, txns, held, acked, hasTruth, kind, lossless, fixp>>
               ELSE lostCommit' = lostCommit \cup lost /\ UNCHANGED <<truth, proj, txns, held, acked, hasTruth, kind, lossless, fixp>>
       [] e.ev = "api_call" ->
            IF e.c \in {"commit", "rollback"} /\ e.txn \in DOMAIN txns
            THEN /\ held' = {h \in held : h.t # e.txn}
                 /\ txns' = [txns EXCEPT ![e.txn].state = "ending"]
                 /\ UNCHANGED <<truth, proj, acked, hasTruth, kind, lossless, lostCommit, fixp>>
            ELSE Unch
       [] e.ev = "commit_buffer" ->
            \* an insert that was deleted again inside the transaction is only an existence check: it writes nothing
            /\ txns' = [txns EXCEPT ![e.txn].wrote = {e.buffer[i].k : i \in {j \in 1..Len(e.buffer) : e.buffer[j].val >= 0}}
                                                      \ {k \in txns[e.txn].inserted : txns[e.txn].buf[k] = 0}]
            /\ UNCHANGED <<truth, proj, held, acked, hasTruth, kind, lossless, lostCommit, fixp>>
       [] e.ev = "api_ret" ->
            IF e.c = "begin"
            THEN /\ (IF e.class = "nil" THEN txns' = Ext(txns, e.txn, NewTxn(e.client, e.start, e.pess, IF "call_seq" \in DOMAIN e THEN e.call_seq ELSE e.seq)) ELSE UNCHANGED txns)
                 /\ UNCHANGED <<truth, proj, held, acked, hasTruth, kind, lossless, lostCommit, fixp>>
            ELSE IF e.c = "recovery_read"
            THEN /\ Unch
                 \* a reader after the crash sees, for every transaction, all of its writes or none of them
                 /\ (e.class = "nil" /\ hasTruth) =>
                      \A k \in Key : Check(PairVal(e.pairs, k) = Visible(truth, k, e.ts),
                                           "recovery read differs from the committed history at its timestamp", <<k, e.ts>>)
            ELSE IF e.c \in {"snap_get", "snap_batchget", "snap_iter", "snap_riter"} THEN Unch /\ SnapRule(e)
            ELSE IF ~(e.txn \in DOMAIN txns) THEN Unch
            ELSE LET t == e.txn T == txns[t] IN
              CASE e.c = "get" ->
                     /\ Unch
                     /\ hasTruth => /\ e.class = "nil" => Check(e.val = Expected(t, e.k) /\ e.val # 0, "get returned a value that is not the snapshot's / own write", <<t, e.k, e.val, Expected(t, e.k)>>)
                                    /\ e.class = "notfound" => Check(Expected(t, e.k) = 0, "get found nothing although the snapshot holds a value", <<t, e.k, Expected(t, e.k)>>)
                [] e.c = "batchget" ->
                     /\ Unch
                     /\ (hasTruth /\ e.class = "nil") =>
                          LET req == e.ks IN \A i \in 1..Len(req) : Check(PairVal(e.pairs, req[i]) = Expected(t, req[i]),
                                                        "batch get differs from the snapshot / own writes", <<t, req[i]>>)
                [] e.c \in {"iter", "riter"} ->
                     /\ Unch
                     /\ (hasTruth /\ e.class = "nil") =>
                          LET req == e
                              ks == Asc({k \in Key : InRange(k, req.lo, req.hi) /\ Expected(t, k) # 0})
                              want == ExpectedPairs(t, IF e.c = "iter" THEN ks ELSE Rev(ks))
                          IN Check(e.pairs = want, "scan differs from the snapshot / own writes (order, bounds or content)", <<t, e.pairs, want>>)
                [] e.c \in {"set", "insert", "delete"} ->
                     LET req == e
                     IN /\ (IF e.class = "nil"
                            THEN txns' = [txns EXCEPT ![t].buf[req.k] = IF e.c = "delete" THEN 0 ELSE req.v,
                                                      ![t].inserted = IF e.c = "insert" THEN @ \cup {req.k} ELSE @]
                            ELSE UNCHANGED txns)
                        /\ UNCHANGED <<truth, proj, held, acked, hasTruth, kind, lossless, lostCommit, fixp>>
                [] e.c = "lock" ->
                     LET req == e
                     IN IF e.class = "nil"
                        THEN /\ txns' = [txns EXCEPT ![t].lockfts = [k \in Key |-> IF k \in SetOf(req.ks) /\ @[k] = 0 THEN e.fts ELSE @[k]]]
                             /\ held' = held \cup {[t |-> t, k |-> k] : k \in SetOf(req.ks)}
                             /\ UNCHANGED <<truth, proj, acked, hasTruth, kind, lossless, lostCommit, fixp>>
                             \* a locking read returns the newest committed value
                             /\ \A i \in 1..Len(e.vals) : Check(e.vals[i].val = Visible(proj, e.vals[i].k, MaxTs),
                                                               "locking read did not return the newest committed value", <<t, e.vals[i], Visible(proj, e.vals[i].k, MaxTs)>>)
                        ELSE /\ txns' = [txns EXCEPT ![t].lockfail = TRUE] /\ UNCHANGED <<truth, proj, held, acked, hasTruth, kind, lossless, lostCommit, fixp>>
                [] e.c = "commit" ->
                     /\ txns' = [txns EXCEPT ![t].state = "ended", ![t].commit = e.commit,
                                             ![t].ack = CASE e.class = "nil" -> "nil" [] e.class = "undetermined" -> "undetermined"
                                                          [] e.class = "crashed" -> "none" [] OTHER -> "other"]
                     /\ acked' = IF e.class = "nil" /\ T.wrote # {} THEN acked \cup {[seq |-> e.seq, commit |-> e.commit]} ELSE acked
                     \* 'undetermined' only when a request that could have moved the commit point was sent and its outcome is unknown
                     /\ e.class = "undetermined" => Check(T.start \in lostCommit, "Commit answered 'undetermined' although no commit-point request was lost", <<t, T.start>>)
                     /\ UNCHANGED <<truth, proj, held, hasTruth, kind, lossless, lostCommit, fixp>>
                [] e.c = "rollback" ->
                     /\ txns' = [txns EXCEPT ![t].state = "ended", ![t].ack = "rollback"]
                     /\ UNCHANGED <<truth, proj, held, acked, hasTruth, kind, lossless, lostCommit, fixp>>
                [] OTHER -> Unch
       [] e.ev = "drained" ->
            /\ Unch
            \* C06: without waiting for any expiry, no lock of an ended transaction is left once the background work has drained
            /\ (e.ok /\ lossless) =>
                  \A t \in DOMAIN txns : txns[t].state = "ended" /\ txns[t].ack # "none" =>
                     \A k \in Key : Check(e.proj.lock[k].ts # txns[t].start, "a lock of a finished transaction is left behind", <<t, k, e.proj.lock[k]>>)
       [] e.ev = "final" -> Unch /\ (kind # "c14rt" => FinalRules)   \* a delete-range scenario destroys data on purpose
       [] e.ev = "fixture" -> fixp' = e.proj /\ proj' = e.proj /\ UNCHANGED <<truth, txns, held, acked, hasTruth, kind, lossless, lostCommit>>
       [] e.ev = "gc_done" -> Unch /\ GCRule(e)
       [] e.ev = "rangetask" -> Unch /\ RangeTaskRule(e)
       [] e.ev = "delete_range" -> Unch /\ DeleteRangeRule(e)
       [] e.ev = "safepoint_read" -> Unch /\ SafePointRule(e)
       [] e.ev = "safepoint_midscan" -> Unch /\ MidScanRule(e)
       \* keyspace runs (C15): the tenant of the neighbouring keyspace reads back exactly what it wrote itself
       [] e.ev = "foreign_check" -> Unch /\ Check(e.ok, "a keyspace observed or was affected by the data of another keyspace", e.ok)
       [] e.ev = "livelock" -> Unch /\ Bad("a call kept sending requests without end (no progress within the RPC budget of one scenario)", <<e.client, e.cmd>>)
       [] e.ev = "store_panic" -> Unch /\ Bad("a request reached a region that does not contain its key (the store refused it)", <<e.client, e.cmd, e.req>>)
       [] OTHER -> Unch
Spec == Init /\ [][Next]_hvars
Done == TLCGet("stats").diameter - 1 = Len(Trace) \/ PrintT(<<"INCOMPLETE", TLCGet("stats").diameter>>)
=============================================================================
