----------------------------- MODULE BatchClose -----------------------------
(* C18 - I-spec of how a batch conn ends (internal/client: conn_batch.go, client_batch.go,         *)
(* client_async.go).  A caller submits an entry to the submission queue; the send loop moves        *)
(* entries into its builder and, while the concurrency limit allows, from there into the in-flight   *)
(* table (sent); the recv loop answers tracked entries.  Close sets the closed flag and breaks the   *)
(* connection.  A SYNCHRONOUS caller watches the closed flag itself (Leave).  An ASYNCHRONOUS one   *)
(* has only its callback: somebody has to fail its entry wherever it is when the conn closes.       *)
(*   queue    - entries in batchCommandsCh                                                          *)
(*   builder  - entries the send loop holds (kept there while the limit is exhausted)               *)
(*   table    - entries tracked in batchCommandsClient.batched                                      *)
(* FixedClose = FALSE is the pinned commit: the send loop simply stops when it finds the closed     *)
(* flag and its builder empty (and spins while the builder is not empty), an entry may be enqueued  *)
(* after the loop has stopped, and an entry may be tracked after the recv loop has run              *)
(* failAsyncRequestsOnClose: in each case an asynchronous caller waits for ever (TLC: AsyncReturns).*)
(* FixedClose = TRUE: the send loop, on finding the flag, fails builder and queue and stops; an     *)
(* enqueue re-checks the flag; send re-checks it after tracking.                                    *)
EXTENDS Integers, FiniteSets, TLC
CONSTANTS Callers, Async, Limit, FixedClose
ASSUME Async \subseteq Callers
VARIABLES state, queue, builder, table, closed, sendLoop, recvLoop, cstep
\* state[c]: "idle" | "submitting" | "waiting" | "done";  cstep: sub-step of an asynchronous submission / of send
vars == <<state, queue, builder, table, closed, sendLoop, recvLoop, cstep>>
Init == /\ state = [c \in Callers |-> "idle"] /\ queue = {} /\ builder = {} /\ table = {}
        /\ closed = FALSE /\ sendLoop = "running" /\ recvLoop = "running" /\ cstep = [c \in Callers |-> "none"]
Done(S) == [c \in Callers |-> IF c \in S /\ state[c] = "waiting" THEN "done" ELSE state[c]]
\* SendRequestAsync / sendBatchRequest: select { queue <- entry ; <-closed } - both may be ready
Submit(c) ==
  /\ state[c] = "idle"
  /\ \/ /\ queue' = queue \cup {c} /\ state' = [state EXCEPT ![c] = "waiting"]
        /\ cstep' = [cstep EXCEPT ![c] = IF c \in Async /\ FixedClose THEN "recheck" ELSE "none"]
     \/ /\ closed /\ state' = [state EXCEPT ![c] = "done"] /\ UNCHANGED <<queue, cstep>>
  /\ UNCHANGED <<builder, table, closed, sendLoop, recvLoop>>
\* repaired: after the enqueue the asynchronous submitter looks at the flag once more
Recheck(c) ==
  /\ cstep[c] = "recheck" /\ cstep' = [cstep EXCEPT ![c] = "none"]
  /\ state' = IF closed THEN Done({c}) ELSE state
  /\ UNCHANGED <<queue, builder, table, closed, sendLoop, recvLoop>>
\* a synchronous caller leaves by itself: time-out, cancellation, or the closed flag
Leave(c) ==
  /\ c \notin Async /\ state[c] = "waiting" /\ state' = [state EXCEPT ![c] = "done"]
  /\ UNCHANGED <<queue, builder, table, closed, sendLoop, recvLoop, cstep>>
\* batchSendLoop: fetchAllPendingRequests (select { <-queue ; <-closed })
Fetch ==
  /\ sendLoop = "running" /\ queue # {}
  /\ \E S \in SUBSET queue : S # {} /\ builder' = builder \cup S /\ queue' = queue \ S
  /\ UNCHANGED <<state, table, closed, sendLoop, recvLoop, cstep>>
\* getClientAndSend: as many entries as the limit allows are tracked and sent
Send ==
  /\ sendLoop = "running" /\ builder # {} /\ Cardinality(table) < Limit
  /\ \E e \in builder :
       /\ builder' = builder \ {e}
       /\ IF recvLoop = "stopped" /\ ~FixedClose
          THEN table' = table \cup {e} /\ UNCHANGED state          \* tracked after failAsyncRequestsOnClose ran: nobody will answer
          ELSE IF recvLoop = "stopped"
               THEN table' = table /\ state' = Done({e})            \* repaired: send re-checks isStopped and fails what it tracked
               ELSE table' = table \cup {e} /\ UNCHANGED state
  /\ UNCHANGED <<queue, closed, sendLoop, recvLoop, cstep>>
\* the send loop notices the closed flag
SendLoopSeesClosed ==
  /\ sendLoop = "running" /\ closed
  /\ IF FixedClose
     THEN /\ state' = Done(builder \cup {c \in queue : c \in Async}) /\ builder' = {} /\ queue' = {c \in queue : c \notin Async}
          /\ sendLoop' = "stopped"
     ELSE /\ builder = {}                                           \* with entries held back by the limit the pinned loop never stops
          /\ sendLoop' = "stopped" /\ UNCHANGED <<state, builder, queue>>
  /\ UNCHANGED <<table, closed, recvLoop, cstep>>
\* batchRecvLoop: an answer, or - the connection broken by Close - failAsyncRequestsOnClose and exit
Answer(e) ==
  /\ recvLoop = "running" /\ e \in table /\ table' = table \ {e} /\ state' = Done({e})
  /\ UNCHANGED <<queue, builder, closed, sendLoop, recvLoop, cstep>>
RecvLoopExits ==
  /\ recvLoop = "running" /\ closed
  /\ state' = Done({e \in table : e \in Async}) /\ table' = {e \in table : e \notin Async}
  /\ recvLoop' = "stopped"
  /\ UNCHANGED <<queue, builder, closed, sendLoop, cstep>>
Close == ~closed /\ closed' = TRUE /\ UNCHANGED <<state, queue, builder, table, sendLoop, recvLoop, cstep>>
Next == \/ \E c \in Callers : Submit(c) \/ Recheck(c) \/ Leave(c)
        \/ Fetch \/ Send \/ SendLoopSeesClosed \/ RecvLoopExits \/ Close
        \/ \E e \in table : Answer(e)
Fairness == /\ WF_vars(Fetch) /\ WF_vars(Send) /\ WF_vars(SendLoopSeesClosed) /\ WF_vars(RecvLoopExits)
            /\ \A c \in Callers : WF_vars(Recheck(c)) /\ WF_vars(Leave(c))
            /\ \A e \in Callers : WF_vars(Answer(e))
Spec == Init /\ [][Next]_vars /\ Fairness
\* safety face of "every call returns": once both loops have stopped nobody is left to complete an asynchronous caller
Quiet == sendLoop = "stopped" /\ recvLoop = "stopped" /\ \A c \in Callers : cstep[c] = "none"
AsyncReturns == Quiet => \A c \in Async : state[c] # "waiting"
\* liveness face: after Close every asynchronous caller comes back (the pinned send loop that keeps spinning fails this one)
AsyncReturnsEventually == \A c \in Async : (closed /\ state[c] = "waiting") ~> (state[c] # "waiting")
TypeOK == queue \cap builder = {} /\ queue \cap table = {} /\ builder \cap table = {}
=============================================================================
