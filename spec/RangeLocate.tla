---------------------------- MODULE RangeLocate ----------------------------
(* C09 - the I-spec of RegionCache.BatchLocateKeyRanges (internal/locate/region_cache.go): a   *)
(* direct transcription of its three parts - the walk over the cache (tryFindRegionByKey,      *)
(* scanRegionsFromCache), the PD batch scan of the ranges that were not found, and             *)
(* batchLocateRangesMerger / rangesAfterKey which stitch both lists together.                  *)
(* Keys are naturals; 0 is the empty key: the smallest key as a start, "unbounded" as an end.  *)
(* cache : sequence sorted by lo of [id, lo, hi, expired, reload]  (the ordered index)         *)
(* pd    : sequence sorted by lo of [id, lo, hi]                    (PD's regions, a partition) *)
(* ranges: sequence of [lo, hi], ascending and disjoint            (what callers pass)         *)
(* FixedMerger = FALSE is the merger as it was at the pinned commit: a cached region with an    *)
(* empty end key compared as "covered" by any loaded region and was dropped (MC_RangeLocate     *)
(* finds the uncovered tail in 1 step); TRUE is the repaired comparison.                        *)
EXTENDS Integers, Sequences, FiniteSets, FiniteSetsExt
CONSTANT FixedMerger
NoRegion == [id |-> 0, lo |-> -1, hi |-> -1]
RContains(r, k) == r.lo <= k /\ (r.hi = 0 \/ k < r.hi)
RContainsByEnd(r, k) == IF k = 0 THEN r.hi = 0 ELSE r.lo < k /\ (r.hi = 0 \/ k <= r.hi)
Proj(r) == [id |-> r.id, lo |-> r.lo, hi |-> r.hi]
\* tryFindRegionByKey: the entry with the greatest start <= key, if it contains the key and is usable
TryFind(cache, k) ==
  LET S == {i \in 1..Len(cache) : cache[i].lo <= k} IN
  IF S = {} THEN NoRegion
  ELSE LET c == cache[Max(S)] IN IF RContains(c, k) /\ ~c.expired /\ ~c.reload THEN Proj(c) ELSE NoRegion
\* SortedRegions.AscendGreaterOrEqual + the need-reload filter of scanRegionsFromCache
RECURSIVE ScanFrom(_, _, _, _)
ScanFrom(cache, i, last, end) ==
  IF i > Len(cache) THEN <<>>
  ELSE LET r == cache[i] IN
       IF (end # 0 /\ r.lo >= end) \/ r.expired \/ ~RContains(r, last) THEN <<>>
       ELSE <<r>> \o ScanFrom(cache, i + 1, r.hi, end)
ScanCache(cache, start, end) ==
  LET S == {i \in 1..Len(cache) : cache[i].lo >= start} IN
  IF S = {} THEN <<>>
  ELSE LET all == ScanFrom(cache, Min(S), start, end)
           ok == SelectSeq(all, LAMBDA r : ~r.reload)
       IN [i \in 1..Len(ok) |-> Proj(ok[i])]
\* ---- part 1: the cache walk ----------------------------------------------------------------------
RECURSIVE Inner(_, _, _, _)
Inner(batch, i, acc, hi) ==
  IF i > Len(batch) THEN acc
  ELSE LET r == batch[i] IN
       IF ~RContains(r, acc.lo) THEN acc
       ELSE LET a2 == [cached |-> Append(acc.cached, r), last |-> r, lo |-> r.hi, all |-> FALSE] IN
            IF RContainsByEnd(r, hi) THEN [a2 EXCEPT !.all = TRUE] ELSE Inner(batch, i + 1, a2, hi)
RECURSIVE Walk(_, _, _, _)
Walk(cache, ranges, i, st) ==
  IF i > Len(ranges) THEN st
  ELSE
    LET kr == ranges[i]
        skip == st.last # NoRegion /\ RContainsByEnd(st.last, kr.hi)
        lo1 == IF st.last # NoRegion /\ RContains(st.last, kr.lo) THEN st.last.hi ELSE kr.lo
        r == TryFind(cache, lo1)
    IN IF skip THEN Walk(cache, ranges, i + 1, st)
       ELSE IF r = NoRegion
            THEN Walk(cache, ranges, i + 1, [st EXCEPT !.last = NoRegion, !.uncached = Append(@, [lo |-> lo1, hi |-> kr.hi])])
       ELSE IF RContainsByEnd(r, kr.hi)
            THEN Walk(cache, ranges, i + 1, [st EXCEPT !.last = r, !.cached = Append(@, r)])
       ELSE LET res == Inner(ScanCache(cache, r.hi, kr.hi), 1, [cached |-> Append(st.cached, r), last |-> r, lo |-> r.hi, all |-> FALSE], kr.hi)
            IN Walk(cache, ranges, i + 1, [last |-> res.last, cached |-> res.cached,
                                           uncached |-> IF res.all THEN st.uncached ELSE Append(st.uncached, [lo |-> res.lo, hi |-> kr.hi])])
\* ---- part 2: PD's batch scan (an empty end key is unbounded for a region and for a range) -------------
PDScan(pd, lo, hi) == SelectSeq(pd, LAMBDA r : (r.hi = 0 \/ r.hi > lo) /\ (hi = 0 \/ r.lo < hi))
RECURSIVE BatchScan(_, _, _, _, _)
BatchScan(pd, ranges, i, last, acc) ==
  IF i > Len(ranges) THEN acc
  ELSE LET kr == ranges[i] IN
       IF last # NoRegion /\ (last.hi = 0 \/ (kr.hi # 0 /\ last.hi >= kr.hi)) THEN BatchScan(pd, ranges, i + 1, last, acc)
       ELSE LET lo1 == IF last # NoRegion /\ last.hi > kr.lo THEN last.hi ELSE kr.lo
                rs == PDScan(pd, lo1, kr.hi)
            IN BatchScan(pd, ranges, i + 1, IF Len(rs) > 0 THEN rs[Len(rs)] ELSE last, acc \o rs)
\* ---- part 3: the merger ----------------------------------------------------------------------------
CoveredByLoaded(m, c) == m.lastEnd # -1 /\ (FixedMerger => c.hi # 0) /\ m.lastEnd >= c.hi
RECURSIVE Drain(_, _, _)
Drain(m, ulo, cached) ==
  IF m.idx > Len(cached) THEN m
  ELSE LET c == cached[m.idx] IN
       IF CoveredByLoaded(m, c) THEN Drain([m EXCEPT !.idx = @ + 1], ulo, cached)
       ELSE IF c.lo >= ulo THEN m
       ELSE Drain([m EXCEPT !.idx = @ + 1, !.merged = Append(@, c)], ulo, cached)
AppendRegion(m, u, cached) ==
  LET after(x) == IF u.hi = 0 THEN [x EXCEPT !.idx = Len(cached) + 1] ELSE [x EXCEPT !.lastEnd = u.hi] IN
  IF u.lo = 0 THEN after([m EXCEPT !.merged = Append(@, u)])
  ELSE IF m.lastEnd # -1 /\ m.lastEnd >= u.lo THEN after([m EXCEPT !.merged = Append(@, u)])
  ELSE after([Drain(m, u.lo, cached) EXCEPT !.merged = Append(@, u)])
RECURSIVE Feed(_, _, _, _)
Feed(m, rs, i, cached) == IF i > Len(rs) THEN m ELSE Feed(AppendRegion(m, rs[i], cached), rs, i + 1, cached)
RECURSIVE Build(_, _)
Build(m, cached) ==
  IF m.idx > Len(cached) THEN m.merged
  ELSE LET c == cached[m.idx] IN
       IF CoveredByLoaded(m, c) THEN Build([m EXCEPT !.idx = @ + 1], cached)
       ELSE Build([m EXCEPT !.idx = @ + 1, !.merged = Append(@, c)], cached)
RangesAfterKey(ranges, split) ==
  IF Len(ranges) = 0 THEN <<>>
  ELSE IF split = 0 \/ (ranges[Len(ranges)].hi # 0 /\ split >= ranges[Len(ranges)].hi) THEN <<>>
  ELSE LET n == Min({i \in 1..Len(ranges) : ranges[i].hi = 0 \/ ranges[i].hi > split})
           rest == SubSeq(ranges, n, Len(ranges))
       IN IF split > rest[1].lo THEN [rest EXCEPT ![1].lo = split] ELSE rest
RECURSIVE Load(_, _, _, _, _)
Load(pd, uncached, m, cached, fuel) ==
  IF Len(uncached) = 0 \/ fuel = 0 THEN m
  ELSE LET rs == BatchScan(pd, uncached, 1, NoRegion, <<>>) IN
       IF Len(rs) = 0 THEN m
       ELSE Load(pd, RangesAfterKey(uncached, rs[Len(rs)].hi), Feed(m, rs, 1, cached), cached, fuel - 1)
BatchLocate(cache, pd, ranges) ==
  LET w == Walk(cache, ranges, 1, [last |-> NoRegion, cached |-> <<>>, uncached |-> <<>>])
      m == Load(pd, w.uncached, [lastEnd |-> -1, idx |-> 1, merged |-> <<>>], w.cached, Len(ranges) + 1)
  IN Build(m, w.cached)
\* ---- the P-spec of a range lookup: every point of every range lies in a returned location ------------
PointsOf(r, n) == {p \in 0..(n + 1) : p >= r.lo /\ (r.hi = 0 \/ p < r.hi)}
CoversAll(locs, ranges, n) == \A i \in 1..Len(ranges) : \A p \in PointsOf(ranges[i], n) : \E j \in 1..Len(locs) : RContains(locs[j], p)
=============================================================================
