SPECIFICATION Spec
CONSTANTS P = 4 FixedMerger = FALSE
INVARIANTS Cover InOrder
CHECK_DEADLOCK FALSE
