----------------------------- MODULE Trace_RawKV -----------------------------
(* Trace validation for C11: every call of the real rawkv.Client (over mocktikv, with region  *)
(* splits, merges and leader changes injected at the wire) is one line with its arguments,    *)
(* its result and the store's content read straight from the engine afterwards.  Each line is *)
(* judged by the P-spec of RawKV.tla; each accepted RPC is judged by the routing rule of the   *)
(* I-spec (a region only ever serves keys it holds).  After a disagreement the reference is    *)
(* re-synchronised from the logged content so that the rest of the run is still checked.       *)
EXTENDS RawKV, Json, TLC, Bitwise
Trace == ndJsonDeserialize("trace.ndjson")
VARIABLES pos, m, tab
tvars == <<pos, m, tab>>
Ev == Trace[pos]
Zero8 == <<0, 0, 0, 0, 0, 0, 0, 0>>
Xor8(a, b) == [i \in 1..8 |-> a[i] ^^ b[i]]
RECURSIVE XorAll(_, _)
XorAll(q, st) == IF q = <<>> THEN Zero8 ELSE Xor8(tab.dg[Head(q)][st[Head(q)] + 1], XorAll(Tail(q), st))
RECURSIVE SumAll(_, _)
SumAll(q, st) == IF q = <<>> THEN 0 ELSE tab.klen[Head(q)] + tab.vlen[st[Head(q)] + 1] + SumAll(Tail(q), st)
RangeKeys(st, s, e) == Asc(Live(st, {k \in 1..tab.nkeys : InRange(k, s, e)}))
\* the expected reply of a call, in the logged shape, and the expected content afterwards
Vals(st, q) == [i \in 1..Len(q) |-> st[q[i]]]
KeyOnlyOK(st, ks, vs) == Len(vs) = Len(ks) /\ \A i \in 1..Len(ks) : vs[i] = 0 \/ vs[i] = st[ks[i]]
Judge(st, e) ==
  CASE e.op = "Get" -> [ok |-> e.out = st[e.k], m |-> st, exp |-> <<st[e.k]>>]
    [] e.op = "BatchGet" -> [ok |-> e.out = PBatchGet(st, e.ks), m |-> st, exp |-> PBatchGet(st, e.ks)]
    [] e.op = "Put" -> [ok |-> TRUE, m |-> PPut(st, e.k, e.v), exp |-> <<>>]
    [] e.op = "Delete" -> [ok |-> TRUE, m |-> PDelete(st, e.k), exp |-> <<>>]
    [] e.op = "BatchPut" -> [ok |-> TRUE, m |-> PBatchPut(st, e.ks, e.vs), exp |-> <<>>]
    [] e.op = "BatchDelete" -> [ok |-> TRUE, m |-> PBatchDelete(st, e.ks), exp |-> <<>>]
    [] e.op = "DeleteRange" -> [ok |-> TRUE, m |-> PDeleteRange(st, e.s, e.e), exp |-> <<>>]
    [] e.op = "Scan" -> LET ks == PScanKeys(st, e.s, e.e, e.limit) IN
         [ok |-> e.outk = ks /\ (IF e.keyonly THEN KeyOnlyOK(st, ks, e.outv) ELSE e.outv = Vals(st, ks)), m |-> st, exp |-> PScan(st, e.s, e.e, e.limit)]
    [] e.op = "ReverseScan" -> LET ks == PRevKeys(st, e.s, e.e, e.limit) IN
         [ok |-> e.outk = ks /\ (IF e.keyonly THEN KeyOnlyOK(st, ks, e.outv) ELSE e.outv = Vals(st, ks)), m |-> st, exp |-> PReverseScan(st, e.s, e.e, e.limit)]
    [] e.op = "Checksum" -> LET ks == RangeKeys(st, e.s, e.e) IN
         [ok |-> e.kvs = Len(ks) /\ e.bytes = SumAll(ks, st) /\ e.crc = XorAll(ks, st), m |-> st,
          exp |-> <<Len(ks), SumAll(ks, st), XorAll(ks, st)>>]
    [] e.op = "CompareAndSwap" -> LET r == PCas(st, e.k, e.prev, e.new) IN
         [ok |-> e.old = r.old /\ e.swapped = r.swapped, m |-> r.m, exp |-> <<r.old, r.swapped>>]
\* a request a region accepted names only keys that region holds
Routed(e) ==
  LET r == [lo |-> e.rs, hi |-> e.re] IN
  CASE e.cmd \in {"RawGet", "RawPut", "RawDelete", "RawCompareAndSwap", "RawBatchGet", "RawBatchPut", "RawBatchDelete"} ->
         \A i \in 1..Len(e.keys) : Holds(r, e.keys[i])
    [] e.cmd \in {"RawChecksum"} -> Holds(r, e.s)
    [] e.cmd = "RawScan" -> IF e.rev THEN HoldsEnd(r, e.s) ELSE Holds(r, e.s)
    [] e.cmd = "RawDeleteRange" -> Holds(r, e.s) /\ (IF e.e = 0 THEN r.hi = 0 ELSE HoldsEnd(r, e.e))
    [] OTHER -> TRUE
Init == pos = 1 /\ m = <<>> /\ tab = [nkeys |-> 0]
Next ==
  /\ pos <= Len(Trace) /\ pos' = pos + 1
  /\ CASE Ev.ev = "reset" -> m' = [k \in 1..Ev.nkeys |-> None] /\ tab' = [nkeys |-> Ev.nkeys, klen |-> Ev.klen, vlen |-> Ev.vlen, dg |-> Ev.dg]
       [] Ev.ev = "op" ->
            LET j == Judge(m, Ev)
                ok == Ev.err = "" /\ j.ok /\ j.m = Ev.proj
            IN /\ IF ok THEN TRUE ELSE PrintT(<<"MISMATCH", pos, Ev.op, Ev.err, j.exp, j.m>>)
               /\ m' = Ev.proj /\ UNCHANGED tab
       [] Ev.ev = "rpc" ->
            /\ IF ~Ev.accepted \/ Routed(Ev) THEN TRUE ELSE PrintT(<<"MISMATCH", pos, "misrouted", Ev.cmd>>)
            /\ UNCHANGED <<m, tab>>
       [] OTHER -> UNCHANGED <<m, tab>>
Spec == Init /\ [][Next]_tvars
Done == TLCGet("stats").diameter - 1 = Len(Trace) \/ PrintT(<<"INCOMPLETE", TLCGet("stats").diameter>>)
=============================================================================
