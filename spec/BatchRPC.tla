------------------------------ MODULE BatchRPC ------------------------------
(* C18 - I-spec of the batched RPC multiplexing of internal/client (client_batch.go):            *)
(* callers submit requests; the batch loop allocates a request id (never reused) and records the  *)
(* entry in the in-flight table of the current stream; the server answers ids in any order, may   *)
(* leave some unanswered, and may drop the stream; a dropped stream fails every pending entry of   *)
(* that stream before a new one (a new epoch) is created; answers are dispatched by id, an id not   *)
(* in the table (answered after its entry was failed, or cancelled) is discarded; a caller waits    *)
(* on its own entry and may leave by time-out or cancellation, which marks the entry cancelled.     *)
(* Checked: a caller completes at most once; if it completes with a response it is the response to  *)
(* its own request; an entry never receives a response addressed to another id; after a stream      *)
(* failure no entry of the old stream stays pending.  ReuseIds = TRUE (ids restart with every        *)
(* stream) is the variant that must fail: a late answer of the old stream reaches a new request.     *)
EXTENDS Integers, FiniteSets, TLC
CONSTANTS Callers, MaxStreams, ReuseIds, MaxId
VARIABLES state, myId, result, table, nextId, epoch, wire
vars == <<state, myId, result, table, nextId, epoch, wire>>
R(k, o) == [kind |-> k, owner |-> o]
\* state[c]: "idle" | "waiting" | "done"; result[c]: [kind: "none" | "resp" | "err", owner: whose request the delivered payload answers]
\* table: set of [id, caller] pending on the current stream; wire: answers in flight [id, owner] (owner = whose request the server saw)
Init == /\ state = [c \in Callers |-> "idle"] /\ myId = [c \in Callers |-> 0] /\ result = [c \in Callers |-> R("none", 0)]
        /\ table = {} /\ nextId = 1 /\ epoch = 1 /\ wire = {}
Submit(c) ==
  /\ state[c] = "idle"
  /\ myId' = [myId EXCEPT ![c] = nextId] /\ nextId' = nextId + 1
  /\ table' = table \cup {[id |-> nextId, caller |-> c]}
  /\ state' = [state EXCEPT ![c] = "waiting"]
  /\ UNCHANGED <<result, epoch, wire>>
\* the server has read the request of entry e and puts its answer on the wire (or never does: no action)
ServerAnswer(e) ==
  /\ e \in table /\ ~\E w \in wire : w.id = e.id /\ w.epoch = epoch
  /\ wire' = wire \cup {[id |-> e.id, owner |-> e.caller, epoch |-> epoch]}
  /\ UNCHANGED <<state, myId, result, table, nextId, epoch>>
\* batchRecvLoop: dispatch by id; unknown ids are dropped
Deliver(w) ==
  /\ w \in wire /\ wire' = wire \ {w}
  /\ IF \E e \in table : e.id = w.id
     THEN LET e == CHOOSE x \in table : x.id = w.id IN
          /\ table' = table \ {e}
          /\ IF state[e.caller] = "waiting" /\ myId[e.caller] = e.id
             THEN state' = [state EXCEPT ![e.caller] = "done"] /\ result' = [result EXCEPT ![e.caller] = R("resp", w.owner)]
             ELSE UNCHANGED <<state, result>>
     ELSE UNCHANGED <<table, state, result>>
  /\ UNCHANGED <<myId, nextId, epoch>>
\* the stream breaks: every pending entry fails, a new stream is created; answers of the old stream may still arrive later
StreamFail ==
  /\ epoch < MaxStreams
  /\ state' = [c \in Callers |-> IF state[c] = "waiting" /\ \E e \in table : e.caller = c /\ e.id = myId[c] THEN "done" ELSE state[c]]
  /\ result' = [c \in Callers |-> IF state[c] = "waiting" /\ \E e \in table : e.caller = c /\ e.id = myId[c] THEN R("err", 0) ELSE result[c]]
  /\ table' = {} /\ epoch' = epoch + 1
  /\ nextId' = (IF ReuseIds THEN 1 ELSE nextId)
  /\ UNCHANGED <<myId, wire>>
\* time-out or cancellation: the caller leaves, its entry is removed (marked cancelled)
Leave(c) ==
  /\ state[c] = "waiting"
  /\ state' = [state EXCEPT ![c] = "done"] /\ result' = [result EXCEPT ![c] = R("err", 0)]
  /\ table' = {e \in table : ~(e.caller = c /\ e.id = myId[c])}
  /\ UNCHANGED <<myId, nextId, epoch, wire>>
\* a finished caller may call again (a new request)
Again(c) == state[c] = "done" /\ state' = [state EXCEPT ![c] = "idle"] /\ result' = [result EXCEPT ![c] = R("none", 0)] /\ UNCHANGED <<myId, table, nextId, epoch, wire>>
Next == \/ \E c \in Callers : Submit(c) \/ Leave(c) \/ Again(c)
        \/ \E e \in table : ServerAnswer(e)
        \/ \E w \in wire : Deliver(w)
        \/ StreamFail
Spec == Init /\ [][Next]_vars
OwnResponse == \A c \in Callers : result[c].kind = "resp" => result[c].owner = c
IdsUnique == \A a, b \in table : a.id = b.id => a = b
Bound == nextId <= MaxId
NoOrphans == \A e \in table : state[e.caller] = "waiting" /\ myId[e.caller] = e.id
=============================================================================
