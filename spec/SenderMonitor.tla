---------------------------- MODULE SenderMonitor ----------------------------
(* C10 - property-level monitor of RegionRequestSender.SendReqCtx.  One line per call made     *)
(* against a scripted store: the configuration (command kind, replica-read mode as set by the  *)
(* caller, store-selector option, read-ts validation, back-off budget), the fault script, and  *)
(* for every attempt that reached the wire: target store/peer, the ReplicaRead / StaleRead /   *)
(* IsRetryRequest flags, the reply kind it was given, and the back-offer's counters at that     *)
(* moment; finally the call's outcome and whether the returned response is the very object a    *)
(* store produced.  Sender.tla is the abstract I-spec whose invariants these rules mirror.      *)
EXTENDS Integers, Sequences, FiniteSets, TLC, Json
Trace == ndJsonDeserialize("trace.ndjson")
VARIABLE pos
Ev == Trace[pos]
Bad(rule, detail) == PrintT(<<"MISMATCH", pos, rule, detail>>)
Check(cond, rule, detail) == IF cond THEN TRUE ELSE Bad(rule, detail)
RegionErrKinds == {"not_leader_hint", "not_leader_nohint", "epoch_not_match", "epoch_not_match_regions", "region_not_found", "server_busy", "server_busy_wait",
                   "stale_command", "store_not_match", "data_not_ready", "max_ts_not_synced", "disk_full", "read_index_not_ready", "proposal_in_merge",
                   "raft_entry_too_large", "region_not_initialized", "recovery_in_progress", "flashback_in_progress", "flashback_not_prepared", "is_witness",
                   "mismatch_peer_id", "key_not_in_region", "unknown"}
\* The budget is the caller's value times the default back-off weight (2).  Before each sleep the non-excluded total is
\* compared with it, so it may be overrun by one step (the largest non-excluded step is 5 s, tikvDiskFull); server-busy
\* sleeps are excluded from the budget and capped separately (600 s, or the budget if larger) with steps of up to 10 s.
Weight == 2
MaxStep == 5000
ExcludedCap == 600000
MaxExcludedStep == 10000
\* immediate re-sends are legitimate while they are bounded: three replicas, each at most 10 attempts plus at most 10 extra chances (since 6638d57)
MaxAttemptsWithoutBackoff == 64
\* replies after which the code backs off before it may use the same store again (send failures, busy / not-ready style region errors)
BackoffBeforeSameStore == {"rpc_error", "deadline", "disk_full", "max_ts_not_synced", "proposal_in_merge", "read_index_not_ready", "region_not_initialized",
                           "server_busy", "server_busy_wait"}
Rules(e) ==
  LET a == e.attempts  n == Len(a) IN
  \* 1. the call ends, and it ends after a bounded number of attempts
  /\ Check(~e.hang, "the call did not return", <<e.cfg, e.script, e.tail>>)
  /\ Check(~e.spinning, "the call kept re-sending without end (attempt limit of the harness reached)", <<e.cfg, e.script, e.tail, e.total_sleep, e.btimes>>)
  \* 2. no fabricated success: a response without region error is the object produced by the store on the last attempt
  /\ (e.result = "resp") => Check(e.genuine /\ n > 0 /\ a[n].kind = "ok", "a success was returned that no store produced", <<e.cfg, e.script, e.tail>>)
  /\ Check(e.result # "nil", "neither a response nor an error was returned", <<e.cfg, e.script>>)
  \* 3. the back-off budget: never overrun by more than one step; an error only once something was tried or validated
  /\ Check(e.total_sleep - e.excluded_sleep <= Weight * e.cfg.budget + MaxStep, "the back-off budget was overrun by more than one step", <<e.cfg.budget, e.total_sleep, e.excluded_sleep>>)
  /\ Check(e.excluded_sleep <= (IF Weight * e.cfg.budget > ExcludedCap THEN Weight * e.cfg.budget ELSE ExcludedCap) + MaxExcludedStep,
           "the excluded (server busy) back-off exceeded its own cap", <<e.cfg.budget, e.excluded_sleep>>)
  \* 4. no unbounded run of attempts without any back-off in between
  /\ ~e.spinning => Check(\A i \in 1..n : Cardinality({j \in 1..n : a[j].btimes = a[i].btimes}) <= MaxAttemptsWithoutBackoff,
                          "more attempts in a row without any back-off than the replicas' attempt limits allow", <<e.cfg, e.script, e.tail>>)
  \* 4b. after these replies the same store is only tried again after a back-off (so that a spent budget ends the call)
  /\ \A i \in 1..(n - 1) :
       (a[i].store = a[i + 1].store /\ a[i].kind \in BackoffBeforeSameStore) =>
          Check(a[i + 1].btimes > a[i].btimes, "the same store was tried again without the back-off its reply calls for", <<e.cfg, e.script, e.tail, i, a[i].kind>>)
  \* 5. flag discipline
  /\ (e.cfg.cmd = "write") => \A i \in 1..n : Check(~a[i].rr /\ ~a[i].sr, "a write command was sent flagged as replica read or stale read", <<e.cfg, i, a[i]>>)
  /\ \A i \in 2..n : Check(a[i].retry, "a re-send does not carry the retry marker", <<e.cfg, e.script, i>>)
  /\ (e.cfg.mode = "leader" /\ e.cfg.cmd = "read") => \A i \in 1..n : Check(~a[i].sr, "a leader read was sent as stale read", <<e.cfg, i>>)
  /\ (e.cfg.mode # "stale") => \A i \in 1..n : Check(~a[i].sr, "a request that was not a stale read was sent as one", <<e.cfg, i>>)
  \* 6. read-ts validation
  /\ (e.cfg.validate = "fail" /\ e.cfg.cmd = "read") => Check(n = 0 /\ e.result = "error", "a read whose timestamp failed validation was sent", <<e.cfg, n, e.result>>)
  \* 7. a region error handed to the caller comes from the store (or is the pseudo error after exhausting the replicas)
  /\ (e.result = "region_error" /\ n > 0) => Check(a[n].kind \in RegionErrKinds \cup {"rpc_error", "deadline"}, "a region error was returned after a successful reply", <<e.cfg, e.script>>)
Init == pos = 1
Next == pos <= Len(Trace) /\ pos' = pos + 1 /\ (Ev.ev = "call" => Rules(Ev))
Spec == Init /\ [][Next]_pos
Done == TLCGet("stats").diameter - 1 = Len(Trace) \/ PrintT(<<"INCOMPLETE", TLCGet("stats").diameter>>)
=============================================================================
