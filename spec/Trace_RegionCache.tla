-------------------------- MODULE Trace_RegionCache --------------------------
(* C09 - property-level monitor for the region cache.  One line per lookup / send of the real  *)
(* RegionCache (internal/locate) with its result, the ordered index read white-box after the  *)
(* call, and PD's truth.  Keys are points 1..N; 0 as a start bound is "from the beginning",    *)
(* as an end bound "to the end"; point 0 stands for the keys below key 1, point N+1 for the    *)
(* keys above key N, so that covering the points of a range is covering the range (region      *)
(* borders are keys of the universe).                                                          *)
(* Rules: containment (by key, by end key, by id), gap-free ordered cover for every range      *)
(* lookup, exactly-one-group for key grouping, no installation of an older description over a  *)
(* newer one (consecutive index dumps), routing of accepted requests, and convergence to the   *)
(* current leader in the quiescent phase.  RangeLocate.tla is the I-spec of the range lookups; *)
(* for calls whose PD answers were all fresh the result must also equal the I-spec's.          *)
EXTENDS RangeLocate, Json, TLC
Trace == ndJsonDeserialize("trace.ndjson")
VARIABLES pos, prev, hasPrev
tvars == <<pos, prev, hasPrev>>
Ev == Trace[pos]
N == 7
Bad(rule, detail) == PrintT(<<"MISMATCH", pos, rule, detail>>)
Check(cond, rule, detail) == IF cond THEN TRUE ELSE Bad(rule, detail)
SetOf(q) == {q[i] : i \in 1..Len(q)}
R(l) == [lo |-> l.s, hi |-> l.e]
Known(l) == l.s >= 0
\* ---- range cover ------------------------------------------------------------------------------
Points(r) == {p \in 0..(N + 1) : p >= r.s /\ (r.e = 0 \/ p < r.e)}
HoldsPoint(l, p) == l.s <= p /\ (l.e = 0 \/ p < l.e)
Covered(locs, ranges) ==
  \A i \in 1..Len(ranges) : \A p \in Points(ranges[i]) : \E j \in 1..Len(locs) : HoldsPoint(locs[j], p)
\* a stale cached description may overlap the fresh one that follows it: starts never decrease
Ordered(locs) == \A i, j \in 1..Len(locs) : i < j => locs[i].s <= locs[j].s
\* ---- grouping ---------------------------------------------------------------------------------
Count(q, x) == Cardinality({i \in 1..Len(q) : q[i] = x})
RECURSIVE SumCount(_, _, _)
SumCount(gs, g, x) == IF g > Len(gs) THEN 0 ELSE Count(gs[g].keys, x) + SumCount(gs, g + 1, x)
\* every occurrence of a key is in exactly one group (two occurrences of one key may end up under two versions of a region
\* when the cache is refreshed in the middle of the call), and a group's region - if still cached - contains its keys
GroupOK(e) ==
  /\ \A x \in SetOf(e.keys) : SumCount(e.groups, 1, x) = Count(e.keys, x)
  /\ \A g \in 1..Len(e.groups) :
       /\ SetOf(e.groups[g].keys) \subseteq SetOf(e.keys)
       /\ Known(e.groups[g]) => \A x \in SetOf(e.groups[g].keys) : HoldsPoint(e.groups[g], x)
  /\ \E g \in 1..Len(e.groups) : e.groups[g].id = e.first /\ e.keys[1] \in SetOf(e.groups[g].keys)
\* ---- installation never regresses -----------------------------------------------------------------
Same(a, b) == a.id = b.id /\ a.ver = b.ver /\ a.conf = b.conf /\ a.s = b.s /\ a.e = b.e
Inside(p, l) == l.s <= p /\ (l.e = 0 \/ p < l.e)
NoRegress(old, new) ==
  \A i \in 1..Len(new) :
    LET E == new[i] IN
    (~\E j \in 1..Len(old) : Same(old[j], E)) =>
       /\ \A j \in 1..Len(old) : old[j].id = E.id =>
            Check(old[j].ver <= E.ver /\ old[j].conf <= E.conf, "an older description of a region was installed over a newer one", <<E, old[j]>>)
       /\ \A j \in 1..Len(old) : (old[j].id # E.id /\ Inside(old[j].s, E) /\ old[j].ver > E.ver) =>
            Bad("a description older than a cached region that starts inside its range was installed", <<E, old[j]>>)
\* the index itself: entries sorted by start key, one entry per start
IndexOK(c) == \A i, j \in 1..Len(c) : i < j => c[i].s < c[j].s
\* ---- the I-spec on calls whose PD answers were all fresh -------------------------------------------------
\* cache content before the call = the previous dump; PD = the logged truth (it does not change during a lookup)
CacheSeq(c) == [i \in 1..Len(c) |-> [id |-> c[i].id, lo |-> c[i].s, hi |-> c[i].e, expired |-> c[i].expired, reload |-> c[i].reload]]
PdSeq(t) == [i \in 1..Len(t) |-> [id |-> t[i].id, lo |-> t[i].s, hi |-> t[i].e]]
ISpecOK(e) ==
  (e.api = "BatchLocateKeyRanges" /\ ~e.stale /\ e.err = "") =>
     LET exp == BatchLocate(CacheSeq(prev), PdSeq(e.truth), [i \in 1..Len(e.ranges) |-> [lo |-> e.ranges[i].s, hi |-> e.ranges[i].e]])
         got == [i \in 1..Len(e.locs) |-> [id |-> e.locs[i].id, lo |-> e.locs[i].s, hi |-> e.locs[i].e]]
     IN Check(exp = got, "BatchLocateKeyRanges differs from its I-spec (RangeLocate.tla)", <<e.ranges, exp, got>>)
\* ---- per event ----------------------------------------------------------------------------------------
LookupRules(e) ==
  /\ Check(e.err = "", "a lookup failed", <<e.api, e.err>>)
  /\ e.err = "" =>
      CASE e.api = "LocateKey" -> Check(HoldsPoint(e.loc, e.k), "LocateKey returned a region that does not contain the key", <<e.k, e.loc>>)
        [] e.api = "LocateEndKey" -> Check(e.loc.s < e.k /\ (e.loc.e = 0 \/ e.k <= e.loc.e), "LocateEndKey returned a region that does not end-contain the key", <<e.k, e.loc>>)
        [] e.api = "TryLocateKey" -> Check(~e.found \/ HoldsPoint(e.loc, e.k), "TryLocateKey returned a region that does not contain the key", <<e.k, e.loc>>)
        [] e.api = "LocateRegionByID" -> Check(e.loc.id = e.id, "LocateRegionByID returned another region", <<e.id, e.loc>>)
        [] e.api \in {"LocateKeyRange", "BatchLocateKeyRanges", "LoadRegionsInKeyRange"} ->
             /\ Check(Covered(e.locs, e.ranges), "a range lookup leaves part of a requested range uncovered", <<e.api, e.ranges, e.locs>>)
             \* (an answer PD gave from an older state may describe a wide region that starts before the locations already
             \* collected: the range is still covered, the order of starts is only demanded of fresh answers)
             /\ ~e.stale => Check(Ordered(e.locs), "a range lookup returned locations out of order", <<e.api, e.ranges, e.locs>>)
        [] e.api = "ListRegionIDsInKeyRange" -> Check(Len(e.ids) >= 1, "no region listed for a non-empty range", e.ranges)
        [] e.api = "GroupKeysByRegion" -> Check(GroupOK(e), "key grouping: a key is in no group, in two, or in a region that does not contain it", <<e.keys, e.groups, e.first>>)
        [] OTHER -> TRUE
SendRules(e) ==
  /\ Check(e.misrouted = "", "a region accepted a request for a key it does not hold", e.misrouted)
  \* also in the middle of a walk: with every store up and PD answering freshly nothing stands in the way of a single request
  /\ (~e.final /\ e.calm) => Check(e.ok /\ e.addr = e.leaderaddr, "a request failed or went elsewhere although every store was up and PD answered freshly", <<e.k, e.ok, e.err, e.addr, e.leaderaddr, e.tries>>)
  /\ e.final => Check(e.ok /\ e.addr = e.leaderaddr, "after the topology stopped changing a request did not converge to the leader of its region", <<e.k, e.ok, e.err, e.addr, e.leaderaddr, e.tries>>)
Init == pos = 1 /\ prev = <<>> /\ hasPrev = FALSE
Next ==
  /\ pos <= Len(Trace) /\ pos' = pos + 1
  /\ CASE Ev.ev = "reset" -> prev' = <<>> /\ hasPrev' = TRUE
       [] Ev.ev \in {"lookup", "send"} ->
            /\ IF Ev.ev = "lookup" THEN LookupRules(Ev) /\ ISpecOK(Ev) ELSE SendRules(Ev)
            \* two consecutive dumps bracket one installation only if the call asked PD at most once: a call that reloads
            \* several times (a send retried under stale PD answers) may first install a newer overlapping region, which removes
            \* the old description, and then an older one of the removed region - nothing is "installed over" anything then
            /\ ((IF "loads" \in DOMAIN Ev THEN Ev.loads ELSE 0) <= 1 => NoRegress(prev, Ev.cache))
            /\ Check(IndexOK(Ev.cache), "the ordered index holds two entries with one start key or is out of order", Ev.cache)
            /\ prev' = Ev.cache /\ UNCHANGED hasPrev
       [] Ev.ev = "cacheop" -> prev' = Ev.cache /\ UNCHANGED hasPrev
       [] OTHER -> UNCHANGED <<prev, hasPrev>>
Spec == Init /\ [][Next]_tvars
Done == TLCGet("stats").diameter - 1 = Len(Trace) \/ PrintT(<<"INCOMPLETE", TLCGet("stats").diameter>>)
=============================================================================
