----------------------------- MODULE Trace_Latch -----------------------------
(* Replay validation (C17a): every line is one acquireSlot / releaseSlot / channel step executed *)
(* on the real latches in a TLC-generated order, with the full projection after it.  All        *)
(* variables are bound from the log (B3) and the corresponding Latch.tla action is evaluated as *)
(* a predicate on (previous logged state, this logged state); Exclusive and StaleExactly are    *)
(* evaluated on every logged state.                                                              *)
EXTENDS Latch, Json
Trace == ndJsonDeserialize("trace.ndjson")
VARIABLE pos
Ev == Trace[pos]
FromLog(p) ==
  /\ node' = [k \in Key |-> p.node[k]]
  /\ waiting' = [s \in Slots |-> p.waiting[s]]
  /\ acq' = [t \in Txn |-> IF t <= Len(p.acq) THEN p.acq[t] ELSE 0]
  /\ stale' = [t \in Txn |-> IF t <= Len(p.stale) THEN p.stale[t] ELSE FALSE]
  /\ pc' = [t \in Txn |-> IF t <= Len(p.pc) THEN p.pc[t] ELSE "idle"]
  /\ chan' = p.chan
  /\ sched' = p.sched
Act(e) == CASE e.a = "start" -> Start(e.t)
            [] e.a = "acq" -> SelfAcquire(e.t)
            [] e.a = "unlock" -> UnLock(e.t)
            [] e.a = "take" -> SchedTake
            [] e.a = "rel" -> SchedReleaseSlot
            [] e.a = "wake" -> SchedWake
trSlotOf == [k \in {1, 2, 3} |-> IF k = 3 THEN 2 ELSE 1]
PadTo(s, d) == [t \in Txn |-> IF t <= Len(s) THEN s[t] ELSE d]
TInit == pos = 1 /\ InitDyn /\ cfg = [keys |-> [t \in Txn |-> <<>>], start |-> [t \in Txn |-> 0], commit |-> [t \in Txn |-> 0]]
TNext ==
  /\ pos <= Len(Trace) /\ pos' = pos + 1
  /\ IF Ev.ev = "reset"
     THEN /\ cfg' = [keys |-> PadTo(Ev.cfg.keys, <<>>), start |-> PadTo(Ev.cfg.start, 0), commit |-> PadTo(Ev.cfg.commit, 0)]
          /\ node' = [k \in Key |-> [exists |-> FALSE, holder |-> 0, maxCommit |-> 0]]
          /\ waiting' = [s \in Slots |-> <<>>] /\ acq' = [t \in Txn |-> 0] /\ stale' = [t \in Txn |-> FALSE]
          /\ pc' = [t \in Txn |-> "idle"] /\ chan' = <<>> /\ sched' = [pc |-> "idle", cur |-> 0, wake |-> <<>>]
     ELSE IF Ev.ev = "sync" THEN cfg' = cfg /\ FromLog(Ev.proj)
     ELSE /\ cfg' = cfg
          /\ FromLog(Ev.proj)
          /\ IF Ev.res # "diverged" /\ Act(Ev) THEN TRUE
             ELSE PrintT(<<"MISMATCH", pos, Ev.a, Ev.t, Ev.res>>)
TSpec == TInit /\ [][TNext]_<<vars, pos>>
Done == TLCGet("stats").diameter - 1 = Len(Trace) \/ PrintT(<<"INCOMPLETE", TLCGet("stats").diameter>>)
=============================================================================
