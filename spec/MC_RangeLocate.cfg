SPECIFICATION Spec
CONSTANTS P = 4 FixedMerger = TRUE
INVARIANTS Cover InOrder
CHECK_DEADLOCK FALSE
