SPECIFICATION Spec
CONSTANT Tier = "quick"
INVARIANTS Bytes1 Bytes2 Corrupt Int1 Int2
CHECK_DEADLOCK FALSE
