SPECIFICATION Spec
CONSTANTS Callers = {1, 2, 3} CKeys = {1, 2} Bodies = {1, 2} SameKeySameBody = FALSE MaxCalls = 4
INVARIANTS OwnKey OwnBody FlightsOK Attached
CHECK_DEADLOCK FALSE
