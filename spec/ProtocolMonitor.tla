--------------------------- MODULE ProtocolMonitor ---------------------------
(* C04 - Percolator ordering and timestamp rules as a monitor of the request stream that      *)
(* crosses the tikv.Client boundary (every trace the transactional engine records).  Each     *)
(* rule is the enabling condition of the request it constrains; a request that arrives while   *)
(* its condition is false is printed as <<"MISMATCH", line, rule, detail>>.                    *)
(* Per start timestamp S the monitor keeps what the wire has shown so far: keys prewritten     *)
(* successfully, the primary named by the prewrites, whether the primary commit succeeded or   *)
(* may have taken effect, the statuses the store reported for S, heart-beat advice.            *)
(* Weak readings (DESIGN 4/C04): the "advised TTL exceeds the age" clause is not checked (the  *)
(* age is wall-clock uptime of the client, the harness clock is virtual); one heart-beat after *)
(* the end of a transaction is tolerated (its ticker iteration may have started before).        *)
EXTENDS Integers, Sequences, FiniteSets, TLC, Json
Trace == ndJsonDeserialize("trace.ndjson")
MaxTs == 2147483647
Phys(ts) == ts \div 1000
VARIABLES pos, tx, status, maxTso, idOf, lockTtl, asyn
mvars == <<pos, tx, status, maxTso, idOf, lockTtl, asyn>>
Ev == Trace[pos]
SetOf(q) == {q[i] : i \in 1..Len(q)}
Ext(f, k, v) == [x \in DOMAIN f \cup {k} |-> IF x = k THEN v ELSE f[x]]
Get(f, k, d) == IF k \in DOMAIN f THEN f[k] ELSE d
NewTx == [okKeys |-> {}, seenKeys |-> {}, cneKeys |-> {}, ops |-> <<>>, primaries |-> {}, primaryOK |-> FALSE, primaryMaybe |-> FALSE,
          commits |-> {}, mincs |-> {}, advise |-> 0, hbAfterEnd |-> 0, ended |-> FALSE, buffer |-> <<>>, hasBuffer |-> FALSE, bufPess |-> FALSE, bufAlevel |-> "off",
          tsoAtCommit |-> 0, async |-> FALSE, onepcSets |-> {}, otherSets |-> {}, rolledBackSent |-> FALSE, asyncLocked |-> {}, asyncKnown |-> {}, onepcDone |-> FALSE]
T(s) == Get(tx, s, NewTx)
Bad(rule, detail) == PrintT(<<"MISMATCH", pos, rule, detail>>)
Check(cond, rule, detail) == IF cond THEN TRUE ELSE Bad(rule, detail)
Lost(e) == e.fault \in {"drop_req", "drop_resp", "crash_before", "crash_after", "undetermined"}
Delivered(e) == e.executed /\ e.resp.kind = "ok" /\ e.fault \notin {"drop_resp", "crash_after", "undetermined"}
RespOK(e) == e.executed /\ e.resp.kind = "ok" /\ e.resp.errs = <<>>
MutKeys(ms) == {ms[i].k : i \in 1..Len(ms)}
BufVal(buf, k) == buf[CHOOSE i \in 1..Len(buf) : buf[i].k = k].val
BufKeys(buf) == {buf[i].k : i \in 1..Len(buf)}
BufEntry(buf, k) == buf[CHOOSE i \in 1..Len(buf) : buf[i].k = k]
\* the mutation a buffer entry implies (twoPhaseCommitter.initKeysAndMutations without a kv filter): val -1 = no value,
\* 0 = tombstone; "skip" = the entry produces no mutation
ExpOp(b, pess) ==
  IF b.val = -1 THEN (IF b.locked THEN "Lock" ELSE "skip")
  ELSE IF b.val > 0 THEN (IF b.pne THEN "Insert" ELSE "Put")
  ELSE IF ~pess /\ b.pne THEN "CheckNotExists"
  ELSE IF b.newly THEN (IF b.locked THEN "Lock" ELSE "skip")
  ELSE "Del"
ExpAssert(b, alevel) == IF alevel = "off" THEN "None" ELSE IF b.aex THEN "Exist" ELSE IF b.anex THEN "NotExist" ELSE "None"
ExpAct(b, pess) == IF b.locked /\ pess THEN "pess" ELSE IF b.pcc THEN "constraint" ELSE "skip"
MutBufKeys(t) == {k \in BufKeys(t.buffer) : ExpOp(BufEntry(t.buffer, k), t.bufPess) # "skip"}
\* the keys a commit has to lock: every buffered mutation but the non-locking existence checks
LockBufKeys(t) == {k \in MutBufKeys(t) : ExpOp(BufEntry(t.buffer, k), t.bufPess) # "CheckNotExists"}
ContentOK(t, m) ==
  /\ m.k \in MutBufKeys(t)
  /\ LET b == BufEntry(t.buffer, m.k) IN
       /\ m.op = ExpOp(b, t.bufPess)
       /\ (m.op \in {"Put", "Insert"} => m.val = b.val)
       /\ m.assert = ExpAssert(b, t.bufAlevel)
       /\ m.act = ExpAct(b, t.bufPess)

Init == pos = 1 /\ tx = <<>> /\ status = <<>> /\ maxTso = 0 /\ idOf = <<>> /\ lockTtl = <<>> /\ asyn = <<>>
\* statuses the store reports in key errors are also remembered (lock ttl advertised for a transaction)
TtlsIn(e) == IF e.executed /\ e.resp.kind = "ok" /\ "errs" \in DOMAIN e.resp
             THEN {<<e.resp.errs[i].ets, e.resp.errs[i].lttl>> : i \in {j \in 1..Len(e.resp.errs) : e.resp.errs[j].err = "locked"}}
             ELSE {}
NoteTtls(e) == LET S == TtlsIn(e)
               IN [s \in DOMAIN lockTtl \cup {p[1] : p \in S} |->
                     IF \E p \in S : p[1] = s THEN (CHOOSE p \in S : p[1] = s)[2] ELSE lockTtl[s]]

OnPrewrite(e) ==
  LET r == e.req  s == r.start  t == T(s)
      ks == MutKeys(r.muts)
      cne == {r.muts[i].k : i \in {j \in 1..Len(r.muts) : r.muts[j].op = "CheckNotExists"}}
      t2 == [t EXCEPT !.seenKeys = @ \cup (ks \ cne), !.cneKeys = @ \cup cne, !.primaries = @ \cup {r.primary},
                      !.okKeys = IF RespOK(e) THEN @ \cup (ks \ cne) ELSE @, !.ops = @ \o r.muts,
                      !.mincs = IF RespOK(e) /\ e.resp.minc > 0 THEN @ \cup {e.resp.minc} ELSE @,
                      !.async = @ \/ r.async, !.onepcSets = IF r.onepc THEN @ \cup {ks} ELSE @,
                      \* keys the store did lock as async-commit locks - whether or not the client learned it
                      !.asyncLocked = IF r.async /\ RespOK(e) /\ e.resp.minc > 0 THEN @ \cup (ks \ cne) ELSE @,
                      \* ... and the keys of which the client learned it; a one-phase commit the client learned of
                      !.asyncKnown = IF r.async /\ RespOK(e) /\ Delivered(e) /\ e.resp.minc > 0 THEN @ \cup (ks \ cne) ELSE @,
                      !.onepcDone = @ \/ (r.onepc /\ RespOK(e) /\ Delivered(e) /\ e.resp.onepc_commit > 0),
                      !.otherSets = IF ~r.onepc THEN @ \cup {ks} ELSE @]
  IN /\ tx' = Ext(tx, s, t2)
     /\ Check(Cardinality(t2.primaries) = 1, "prewrites of one transaction name different primaries", <<s, t2.primaries>>)
     /\ Check(~t.primaryMaybe, "a prewrite is sent after the primary commit may have taken effect", s)
     /\ (r.async /\ r.primary \in ks) => Check(SetOf(r.secondaries) \cap {r.primary} = {}, "async primary lists itself as a secondary", s)
     \* the secondaries a resolver will ask about are exactly the other keys that get locked: a key listed but never locked
     \* reads as "missing" and rolls a committed transaction back, a locked key not listed is left out of the decision
     /\ (r.async /\ r.primary \in ks /\ t.hasBuffer) =>
          Check(SetOf(r.secondaries) = LockBufKeys(t) \ {r.primary}, "an async-commit primary does not list exactly the other locked keys as its secondaries",
                <<s, SetOf(r.secondaries), LockBufKeys(t) \ {r.primary}>>)
     /\ Check(r.minc = 0 \/ r.minc > s, "min-commit-ts of a prewrite is not above the start ts", <<s, r.minc>>)
     \* one-phase commit is attempted with one prewrite request only: a request asking for it carries the same keys as every
     \* earlier one that asked (a re-send), and no prewrite without the flag went before it (after a fall-back to two-phase
     \* commit the flag stays off)
     /\ r.onepc => Check(t.onepcSets \subseteq {ks} /\ t.otherSets = {}, "one-phase commit attempted together with other prewrite requests", <<s, ks, t.onepcSets, t.otherSets>>)
     \* every prewritten mutation is the one its buffer entry implies: operation, value, assertion, pessimistic action
     /\ t.hasBuffer =>
          \A i \in 1..Len(r.muts) :
             Check(ContentOK(t, r.muts[i]), "a prewritten mutation differs from what the buffered write implies",
                   <<s, r.muts[i], IF r.muts[i].k \in BufKeys(t.buffer) THEN BufEntry(t.buffer, r.muts[i].k) ELSE "not buffered", t.bufPess, t.bufAlevel>>)

OnCommit(e) ==
  LET r == e.req  s == r.start  t == T(s)
      ks == SetOf(r.keys)
      prim == IF t.primaries = {} THEN 0 ELSE CHOOSE p \in t.primaries : TRUE
      hasPrim == prim \in ks
      t2 == [t EXCEPT !.commits = @ \cup {r.commit},
                      !.primaryOK = @ \/ (hasPrim /\ RespOK(e) /\ Delivered(e)),
                      !.primaryMaybe = @ \/ (hasPrim /\ (RespOK(e) \/ Lost(e)))]
  IN /\ tx' = Ext(tx, s, t2)
     /\ Check(ks \subseteq t.okKeys, "a key is committed that was not successfully prewritten", <<s, ks \ t.okKeys>>)
     /\ Check(t.seenKeys \subseteq t.okKeys, "commit is sent while a prewritten mutation has not succeeded", <<s, t.seenKeys \ t.okKeys>>)
     /\ t.hasBuffer => Check(MutBufKeys(t) \subseteq t.okKeys \cup t.cneKeys, "commit is sent before every buffered mutation was prewritten", <<s, MutBufKeys(t) \ (t.okKeys \cup t.cneKeys)>>)
     /\ Check(hasPrim \/ t.primaryOK \/ t.async, "a secondary is committed before the primary's commit succeeded", <<s, ks>>)
     /\ Check(prim \in t.seenKeys \/ prim = 0, "the primary is not one of the locked mutations", <<s, prim>>)
     /\ Check(r.commit > s, "commit ts not above start ts", <<s, r.commit>>)
     /\ Check(\A m \in t.mincs : r.commit >= m, "commit ts below a min-commit-ts returned by a prewrite", <<s, r.commit, t.mincs>>)
     /\ Check(t.tsoAtCommit = 0 \/ r.commit > t.tsoAtCommit, "commit ts does not exceed the timestamps issued before Commit was called", <<s, r.commit, t.tsoAtCommit>>)

OnRollback(e) ==
  LET s == e.req.start  t == T(s)
  IN /\ tx' = Ext(tx, s, [t EXCEPT !.rolledBackSent = TRUE])
     /\ Check(~t.primaryMaybe, "a rollback is sent although the primary commit may have taken effect", s)
     \* async commit has no primary commit: the transaction is committed as soon as every key carries its async-commit lock
     /\ Check(~(t.async /\ t.hasBuffer /\ LockBufKeys(t) # {} /\ LockBufKeys(t) \subseteq t.asyncLocked),
              "a rollback is sent although every key of the async-commit transaction is locked: it may be committed", <<s, t.asyncLocked>>)

\* what the store said about transaction s
OnCheckTxnStatus(e) ==
  LET r == e.req  s == r.lts
      ttl == Get(lockTtl, s, -1)
      st == IF RespOK(e) /\ Delivered(e)
            THEN (IF e.resp.commit > 0 THEN {e.resp.commit} ELSE IF e.resp.ttl = 0 THEN {0} ELSE {})
            ELSE {}
  IN /\ status' = Ext(status, s, Get(status, s, {}) \cup st)
     /\ Check(r.current = MaxTs \/ r.current <= maxTso, "status check carries a current ts the oracle never issued", <<s, r.current, maxTso>>)
     /\ Check(r.current # MaxTs \/ r.caller = 0 \/ ttl = 0, "a live lock is checked with current ts = max (forced expiry) outside GC", <<s, ttl>>)
     \* a reader that meets a live lock names its own snapshot ts, so that the store can push the lock's min-commit-ts above it;
     \* the reserved value "max" (no snapshot of these workloads reads at it) makes the store skip the push and the reader skip the lock
     /\ Check(r.caller = 0 \/ r.caller <= maxTso, "status check carries a caller start ts the oracle never issued (the lock's min-commit-ts cannot be pushed above the reader)", <<s, r.caller, maxTso>>)
     /\ Check(~r.rb \/ r.current = MaxTs \/ ttl < 0 \/ Phys(s) + ttl < Phys(maxTso) + 1,
              "rollback-if-not-exist requested before the lock's ttl elapsed on the resolver's clock", <<s, ttl, maxTso>>)
OnCheckSecondary(e) ==
  LET s == e.req.start
      st == IF RespOK(e) /\ Delivered(e) THEN (IF e.resp.commit > 0 THEN {e.resp.commit} ELSE {}) ELSE {}
  IN status' = Ext(status, s, Get(status, s, {}) \cup st)

\* async commit: what a resolver learns about transaction s from the primary lock (CheckTxnStatus) and from CheckSecondaryLocks -
\* the min-commit-ts of every lock it saw, and whether a secondary was found neither locked nor committed
NoAsync == [mincs |-> {}, missing |-> FALSE]
A(s) == Get(asyn, s, NoAsync)
MaxOf(S) == CHOOSE x \in S : \A y \in S : y <= x
NoteAsync(e) ==
  IF ~(e.executed /\ e.resp.kind = "ok" /\ Delivered(e)) THEN asyn
  ELSE IF e.cmd = "CheckTxnStatus" /\ "lasync" \in DOMAIN e.resp /\ e.resp.lasync
       THEN Ext(asyn, e.req.lts, [A(e.req.lts) EXCEPT !.mincs = @ \cup {e.resp.lminc}])
  ELSE IF e.cmd = "CheckSecondaryLocks"
       THEN Ext(asyn, e.req.start, [mincs |-> A(e.req.start).mincs \cup {e.resp.locks[i].minc : i \in 1..Len(e.resp.locks)},
                                    missing |-> A(e.req.start).missing \/ (e.resp.commit = 0 /\ Len(e.resp.locks) < Len(e.req.keys))])
  ELSE asyn
\* a lock of s may be resolved with: an outcome the store reported for s; the committer's own commit ts once its primary commit
\* succeeded; for an async-commit transaction "rolled back" once a secondary was found missing, or - every secondary seen locked -
\* the largest min-commit-ts among the locks seen (primary included)
ResolveAllowed(s, c) == \/ c \in Get(status, s, {})
                        \/ (c > 0 /\ c \in T(s).commits /\ T(s).primaryOK)
                        \/ (c = 0 /\ A(s).missing)
                        \/ (c > 0 /\ ~A(s).missing /\ A(s).mincs # {} /\ c = MaxOf(A(s).mincs))
OnResolve(e) ==
  LET r == e.req
      pairs == (IF r.start # 0 THEN {<<r.start, r.commit>>} ELSE {}) \cup {<<r.infos[i].start, r.infos[i].commit>> : i \in 1..Len(r.infos)}
  IN \A p \in pairs : Check(ResolveAllowed(p[1], p[2]), "a lock is resolved with an outcome / commit ts the store did not report for its transaction", <<p, Get(status, p[1], {}), A(p[1])>>)

OnHeartBeat(e) ==
  LET r == e.req  s == r.start  t == T(s)
      prim == IF t.primaries = {} THEN 0 ELSE CHOOSE p \in t.primaries : TRUE
  IN /\ tx' = Ext(tx, s, [t EXCEPT !.advise = r.advise, !.hbAfterEnd = IF t.ended THEN @ + 1 ELSE @])
     /\ Check(prim = 0 \/ r.primary = prim, "heart-beat does not name the primary", <<s, r.primary, prim>>)
     /\ Check(r.advise >= t.advise, "heart-beat advises a smaller ttl than before", <<s, r.advise, t.advise>>)
     /\ Check(~t.ended \/ t.hbAfterEnd < 1, "heart-beats continue after the transaction has ended", s)

Next ==
  /\ pos <= Len(Trace) /\ pos' = pos + 1
  /\ LET e == Ev IN
     CASE e.ev = "reset" -> tx' = <<>> /\ status' = <<>> /\ maxTso' = 0 /\ idOf' = <<>> /\ lockTtl' = <<>> /\ asyn' = <<>>
       [] e.ev = "tso" -> maxTso' = (IF e.ts > maxTso THEN e.ts ELSE maxTso) /\ UNCHANGED <<tx, status, idOf, lockTtl, asyn>>
       [] e.ev = "api_ret" /\ e.c = "begin" /\ e.class = "nil" ->
            idOf' = Ext(idOf, e.txn, e.start) /\ UNCHANGED <<tx, status, maxTso, lockTtl, asyn>>
       [] e.ev = "commit_buffer" /\ e.txn \in DOMAIN idOf ->
            /\ tx' = Ext(tx, idOf[e.txn], [T(idOf[e.txn]) EXCEPT !.buffer = e.buffer, !.hasBuffer = TRUE, !.bufPess = e.pess, !.bufAlevel = e.alevel, !.tsoAtCommit = maxTso])
            /\ UNCHANGED <<status, maxTso, idOf, lockTtl, asyn>>
       [] e.ev = "api_ret" /\ e.c \in {"commit", "rollback"} /\ e.txn \in DOMAIN idOf ->
            /\ tx' = Ext(tx, idOf[e.txn], [T(idOf[e.txn]) EXCEPT !.ended = TRUE])
            \* success is announced only past the commit point: the primary's commit succeeded, or the store committed in one
            \* phase, or - async commit - the client knows every key to carry its async-commit lock
            /\ LET t == T(idOf[e.txn]) IN
               (e.c = "commit" /\ e.class = "nil" /\ t.hasBuffer /\ LockBufKeys(t) # {}) =>
                  Check(t.primaryOK \/ t.onepcDone \/ (t.async /\ LockBufKeys(t) \subseteq t.asyncKnown),
                        "Commit answered success before the transaction passed its commit point", <<idOf[e.txn], t.primaryOK, t.onepcDone, t.asyncKnown, LockBufKeys(t)>>)
            /\ UNCHANGED <<status, maxTso, idOf, lockTtl, asyn>>
       [] e.ev = "rpc" ->
            /\ lockTtl' = NoteTtls(e) /\ asyn' = NoteAsync(e)
            /\ CASE e.cmd = "Prewrite" -> OnPrewrite(e) /\ UNCHANGED <<status, maxTso, idOf>>
                 [] e.cmd = "Commit" -> OnCommit(e) /\ UNCHANGED <<status, maxTso, idOf>>
                 [] e.cmd = "BatchRollback" -> OnRollback(e) /\ UNCHANGED <<status, maxTso, idOf>>
                 [] e.cmd = "CheckTxnStatus" -> OnCheckTxnStatus(e) /\ UNCHANGED <<tx, maxTso, idOf>>
                 [] e.cmd = "CheckSecondaryLocks" -> OnCheckSecondary(e) /\ UNCHANGED <<tx, maxTso, idOf>>
                 [] e.cmd = "ResolveLock" -> OnResolve(e) /\ UNCHANGED <<tx, status, maxTso, idOf>>
                 [] e.cmd = "TxnHeartBeat" -> OnHeartBeat(e) /\ UNCHANGED <<status, maxTso, idOf>>
                 [] OTHER -> UNCHANGED <<tx, status, maxTso, idOf>>
       [] OTHER -> UNCHANGED <<tx, status, maxTso, idOf, lockTtl, asyn>>
Spec == Init /\ [][Next]_mvars
Done == TLCGet("stats").diameter - 1 = Len(Trace) \/ PrintT(<<"INCOMPLETE", TLCGet("stats").diameter>>)
=============================================================================
