SPECIFICATION Spec
CONSTANT MaxKeyLen = 65535
POSTCONDITION Done
CHECK_DEADLOCK FALSE
