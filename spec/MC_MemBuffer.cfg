SPECIFICATION MCSpec
CONSTANTS MaxKeyLen = 65535 MaxOps = 4
INVARIANTS InvConsistent InvSnapshotStable
PROPERTIES CleanupRestores ReleaseKeeps
CHECK_DEADLOCK FALSE
