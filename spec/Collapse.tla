------------------------------ MODULE Collapse ------------------------------
(* C18 (anchor client_collapse.go) - I-spec of request collapsing: region-wide ResolveLock          *)
(* requests with the same collapse key (region id, start version, async flag) that are in flight   *)
(* at the same time share ONE inner request (singleflight.DoChan); every caller waits for the       *)
(* shared result with its own context and time-out and may leave without cancelling the flight.     *)
(* Other requests (resolve-lock-lite with keys, batch resolve with txn infos, every other command)  *)
(* pass through untouched.                                                                           *)
(* A request is [key, body]: body stands for what the key does NOT contain (commit version, region  *)
(* epoch, the address).  The protocol makes the commit version a function of the start version, so   *)
(* SameKeySameBody is the environment assumption under which sharing is sound; with it switched off  *)
(* (MC_Collapse_mixed.cfg) TLC shows a caller receiving the answer to a request with another body.   *)
(* Checked: every caller returns at most once; a response it gets answers a request with its own    *)
(* key (and, under the assumption, its own body) that was in flight while the caller was waiting;    *)
(* at most one inner request per key is in flight; a flight never outlives... nothing: it always     *)
(* ends by its own time-out (the inner request carries the short read time-out).                     *)
EXTENDS Integers, FiniteSets, TLC
CONSTANTS Callers, CKeys, Bodies, SameKeySameBody, MaxCalls
VARIABLES state,    \* state[c]: "idle" | "waiting" | "done"
          req,      \* req[c]: [key, body, collapsible] of the current call
          got,      \* got[c]: what the caller received: [kind: "none" | "resp" | "err", key, body]
          flight,   \* flight[k]: 0 = none, otherwise [body |-> the leader's body, waiters |-> callers attached]
          inner,    \* inner requests sent so far (for the at-most-one rule): set of [key, body, n]
          calls
vars == <<state, req, got, flight, inner, calls>>
NoReq == [key |-> 0, body |-> 0, collapsible |-> FALSE]
NoFlight == [body |-> 0, waiters |-> {}, live |-> FALSE]
Init == /\ state = [c \in Callers |-> "idle"] /\ req = [c \in Callers |-> NoReq] /\ got = [c \in Callers |-> [kind |-> "none", key |-> 0, body |-> 0]]
        /\ flight = [k \in CKeys |-> NoFlight] /\ inner = {} /\ calls = 0
BodyOK(k, b) == ~SameKeySameBody \/ b = k        \* under the assumption the body is determined by the key
\* SendRequest with a collapsible request: join the flight of its key or start one
CallCollapsible(c, k, b) ==
  /\ state[c] = "idle" /\ calls < MaxCalls /\ BodyOK(k, b) /\ calls' = calls + 1
  /\ req' = [req EXCEPT ![c] = [key |-> k, body |-> b, collapsible |-> TRUE]]
  /\ state' = [state EXCEPT ![c] = "waiting"] /\ got' = [got EXCEPT ![c] = [kind |-> "none", key |-> 0, body |-> 0]]
  /\ IF flight[k].live
     THEN flight' = [flight EXCEPT ![k].waiters = @ \cup {c}] /\ UNCHANGED inner
     ELSE /\ flight' = [flight EXCEPT ![k] = [body |-> b, waiters |-> {c}, live |-> TRUE]]
          /\ inner' = inner \cup {[key |-> k, body |-> b, n |-> calls]}
\* any other request goes straight to the inner client: its own request, its own answer
CallDirect(c, k, b) ==
  /\ state[c] = "idle" /\ calls < MaxCalls /\ calls' = calls + 1
  /\ req' = [req EXCEPT ![c] = [key |-> k, body |-> b, collapsible |-> FALSE]]
  /\ state' = [state EXCEPT ![c] = "done"] /\ got' = [got EXCEPT ![c] = [kind |-> "resp", key |-> k, body |-> b]]
  /\ UNCHANGED <<flight, inner>>
\* the inner request of key k ends (answer or error): every attached caller that is still waiting gets the shared result
FlightEnds(k, ok) ==
  /\ flight[k].live
  /\ LET W == {c \in flight[k].waiters : state[c] = "waiting" /\ req[c].key = k} IN
     /\ state' = [c \in Callers |-> IF c \in W THEN "done" ELSE state[c]]
     /\ got' = [c \in Callers |-> IF c \in W THEN (IF ok THEN [kind |-> "resp", key |-> k, body |-> flight[k].body] ELSE [kind |-> "err", key |-> 0, body |-> 0]) ELSE got[c]]
  /\ flight' = [flight EXCEPT ![k] = NoFlight]
  /\ UNCHANGED <<req, inner, calls>>
\* a caller's own context or time-out fires: it leaves, the flight goes on
Leave(c) ==
  /\ state[c] = "waiting" /\ state' = [state EXCEPT ![c] = "done"] /\ got' = [got EXCEPT ![c] = [kind |-> "err", key |-> 0, body |-> 0]]
  /\ flight' = [k \in CKeys |-> [flight[k] EXCEPT !.waiters = @ \ {c}]]      \* (its channel is simply never read again)
  /\ UNCHANGED <<req, inner, calls>>
Again(c) == state[c] = "done" /\ state' = [state EXCEPT ![c] = "idle"] /\ UNCHANGED <<req, got, flight, inner, calls>>
Next == \/ \E c \in Callers, k \in CKeys, b \in Bodies : CallCollapsible(c, k, b) \/ CallDirect(c, k, b)
        \/ \E k \in CKeys, ok \in BOOLEAN : FlightEnds(k, ok)
        \/ \E c \in Callers : Leave(c) \/ Again(c)
Spec == Init /\ [][Next]_vars /\ \A k \in CKeys : WF_vars(FlightEnds(k, TRUE) \/ FlightEnds(k, FALSE))
\* a response answers a request with the caller's own key ...
OwnKey == \A c \in Callers : got[c].kind = "resp" => got[c].key = req[c].key
\* ... and, sharing being sound only under the assumption, with its own body
OwnBody == \A c \in Callers : got[c].kind = "resp" => got[c].body = req[c].body
\* nobody is attached to a flight of another key; a live flight has a leader's body
FlightsOK == \A k \in CKeys : \A c \in flight[k].waiters : state[c] = "waiting" => req[c].key = k \/ ~flight[k].live
\* every waiting caller of a collapsible request is attached to the live flight of its key: it cannot be forgotten
Attached == \A c \in Callers : (state[c] = "waiting") => (flight[req[c].key].live /\ c \in flight[req[c].key].waiters)
\* every caller comes back
Returns == \A c \in Callers : (state[c] = "waiting") ~> (state[c] # "waiting")
=============================================================================
