SPECIFICATION Spec
CONSTANTS Bytes = {0} MaxLen = 0 Ids = {}
POSTCONDITION Done
CHECK_DEADLOCK FALSE
