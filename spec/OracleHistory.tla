---------------------------- MODULE OracleHistory ----------------------------
(* C13 - property-level monitor of the timestamp oracle.  The history is one total order of   *)
(* PD issue events, call events (logged before the call starts) and return events (logged      *)
(* after it ended) of concurrent callers of the real pdOracle over a PD whose responses are     *)
(* delayed at random.  Rules: timestamps returned to callers are issued ones, pairwise          *)
(* different, and increase in real-time order; the low-resolution timestamp never decreases in  *)
(* real-time order and never exceeds what PD has issued; expiry answers agree with each other;  *)
(* validation accepts every timestamp issued before the call and rejects every timestamp beyond  *)
(* what PD has issued when the call ends.  Oracle.tla is the I-spec of the publication and       *)
(* validation mechanism these rules are proved for.                                              *)
EXTENDS Integers, Sequences, FiniteSets, TLC, Json
Trace == ndJsonDeserialize("trace.ndjson")
VARIABLES pos, maxIssued, issued, returned, maxRet, maxLow, floor
hvars == <<pos, maxIssued, issued, returned, maxRet, maxLow, floor>>
Ev == Trace[pos]
Bad(rule, detail) == PrintT(<<"MISMATCH", pos, rule, detail>>)
Check(cond, rule, detail) == IF cond THEN TRUE ELSE Bad(rule, detail)
Ext(f, k, v) == [x \in DOMAIN f \cup {k} |-> IF x = k THEN v ELSE f[x]]
Init == pos = 1 /\ maxIssued = 0 /\ issued = {} /\ returned = {} /\ maxRet = 0 /\ maxLow = 0 /\ floor = <<>>
Unch == UNCHANGED <<maxIssued, issued, returned, maxRet, maxLow, floor>>
Next ==
  /\ pos <= Len(Trace) /\ pos' = pos + 1
  /\ LET e == Ev IN
     CASE e.ev = "reset" -> maxIssued' = 0 /\ issued' = {} /\ returned' = {} /\ maxRet' = 0 /\ maxLow' = 0 /\ floor' = <<>>
       [] e.ev = "issue" ->
            /\ Check(e.ts > maxIssued, "the scripted PD issued a non-increasing timestamp (harness error)", e.ts)
            /\ maxIssued' = e.ts /\ issued' = issued \cup {e.ts} /\ UNCHANGED <<returned, maxRet, maxLow, floor>>
       [] e.ev = "call" ->
            \* what the call must respect: results returned, and timestamps issued, before it started
            /\ floor' = Ext(floor, e.id, [ret |-> maxRet, low |-> maxLow, issued |-> maxIssued])
            /\ UNCHANGED <<maxIssued, issued, returned, maxRet, maxLow>>
       [] e.ev = "ret" /\ e.op = "GetTimestamp" ->
            /\ Check(e.ok, "GetTimestamp failed", e.id)
            /\ e.ok => /\ Check(e.ts \in issued, "a timestamp was returned that PD never issued", e.ts)
                       /\ Check(e.ts \notin returned, "one timestamp was returned to two callers", e.ts)
                       /\ Check(e.ts > floor[e.id].ret, "a timestamp is not above one returned before the call started", <<e.ts, floor[e.id].ret>>)
            /\ returned' = returned \cup {e.ts} /\ maxRet' = (IF e.ts > maxRet THEN e.ts ELSE maxRet)
            /\ UNCHANGED <<maxIssued, issued, maxLow, floor>>
       [] e.ev = "ret" /\ e.op = "LowRes" ->
            /\ Check(e.ok, "the low-resolution timestamp is not available", e.id)
            /\ e.ok => /\ Check(e.ts <= maxIssued, "the low-resolution timestamp exceeds the largest timestamp PD has issued", <<e.ts, maxIssued>>)
                       /\ Check(e.ts >= floor[e.id].low, "the low-resolution timestamp went backwards", <<e.ts, floor[e.id].low>>)
            /\ maxLow' = (IF e.ts > maxLow THEN e.ts ELSE maxLow)
            /\ UNCHANGED <<maxIssued, issued, returned, maxRet, floor>>
       [] e.ev = "ret" /\ e.op = "Validate" ->
            /\ (e.read <= floor[e.id].issued) => Check(e.accepted, "validation rejected a timestamp PD had issued before the call", <<e.read, floor[e.id].issued>>)
            /\ (e.read > maxIssued) => Check(~e.accepted, "validation accepted a timestamp beyond what PD has issued when the call ended", <<e.read, maxIssued>>)
            /\ Unch
       [] e.ev = "ret" /\ e.op = "Expiry" ->
            /\ e.stable => /\ Check(e.expired = (e.until <= 0), "IsExpired and UntilExpired disagree", <<e.expired, e.until>>)
                           /\ Check(e.until = e.lockphys + e.ttl - e.low0phys, "UntilExpired is not lock time + ttl - cached time", <<e.until, e.lockphys, e.ttl, e.low0phys>>)
            /\ Unch
       [] e.ev = "commitwait" ->
            \* a commit under a commit-wait constraint ends above the constraint, or fails
            /\ (e.class = "nil") => Check(e.commit > e.constraint, "a commit timestamp obtained under a commit-wait constraint is not above the constraint", <<e.commit, e.constraint>>)
            /\ Unch
       [] OTHER -> Unch
Spec == Init /\ [][Next]_hvars
Done == TLCGet("stats").diameter - 1 = Len(Trace) \/ PrintT(<<"INCOMPLETE", TLCGet("stats").diameter>>)
=============================================================================
