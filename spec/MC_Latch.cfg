SPECIFICATION MCSpec
CONSTANTS Txn <- mcTxn Key <- mcKey SlotOf <- mcSlotOf Family = "quick" EmitOn = FALSE
INVARIANTS Exclusive StaleExactly NoDeadlock WaitingSound
VIEW View
CHECK_DEADLOCK FALSE
