SPECIFICATION Spec
CONSTANTS Callers = {1, 2, 3} MaxStreams = 3 ReuseIds = TRUE MaxId = 5
INVARIANTS OwnResponse IdsUnique NoOrphans
CONSTRAINT Bound
CHECK_DEADLOCK FALSE
