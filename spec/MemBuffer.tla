------------------------------ MODULE MemBuffer ------------------------------
(* C08 (and the buffer half of C07) - the transaction write buffer as one ordered map with      *)
(* nested undo.  Reference model for both implementations (radix tree `art`, red-black tree      *)
(* `rbt`): abstract on the tree (a key is just a member of an ordered universe), shaped like the *)
(* implementation on the value log, because staging, checkpoints, snapshots, stage inspection    *)
(* and value history are all defined by positions in that log.                                   *)
(*   keys      : 1..NKeys, integer order = byte order of the concrete keys (the harness maps     *)
(*               them to adversarial byte strings; KLen[k] is the byte length)                   *)
(*   values    : [n |-> length, b |-> fill byte]; n = 0 is the tombstone; NoVal = no value       *)
(*   log       : Seq([k, v, prev])  value log; prev = index of the key's previous entry or 0     *)
(*   head[k]   : index of the key's newest entry, 0 = none                                       *)
(*   present[k]: the key has a live node (counted by Len)                                        *)
(*   flags[k]  : set of flag names                                                               *)
(*   stages    : Seq(log length at Staging())                                                    *)
(* Deterministic: every operation is an operator  Op(s, args) -> [res, out, s'].                 *)
EXTENDS Integers, Sequences, FiniteSets, TLC
CONSTANT MaxKeyLen
NoVal == [n |-> -1, b |-> 0]
Tomb == [n |-> 0, b |-> 0]
Persistent == {"KeyLocked", "KeyLockedValExist", "NeedConstraintCheckInPrewrite", "KeyLockedInShareMode"}

ApplyOp(f, op) ==
  CASE op = "SetPresumeKeyNotExists" -> f \cup {"PresumeKNE", "NeedCheckExists"}
    [] op = "DelPresumeKeyNotExists" -> f \ {"PresumeKNE", "NeedCheckExists"}
    [] op = "SetKeyLocked" -> f \cup {"KeyLocked"}
    [] op = "DelKeyLocked" -> f \ {"KeyLocked"}
    [] op = "SetNeedLocked" -> f \cup {"NeedLocked"}
    [] op = "DelNeedLocked" -> f \ {"NeedLocked"}
    [] op = "SetKeyLockedValueExists" -> (f \cup {"KeyLockedValExist"}) \ {"NeedConstraintCheckInPrewrite"}
    [] op = "SetKeyLockedValueNotExists" -> f \ {"KeyLockedValExist", "NeedConstraintCheckInPrewrite"}
    [] op = "DelNeedCheckExists" -> f \ {"NeedCheckExists"}
    [] op = "SetPrewriteOnly" -> f \cup {"PrewriteOnly"}
    [] op = "SetIgnoredIn2PC" -> f \cup {"IgnoredIn2PC"}
    [] op = "SetReadable" -> f \cup {"Readable"}
    [] op = "SetNewlyInserted" -> f \cup {"NewlyInserted"}
    [] op = "SetAssertExist" -> (f \ {"AssertNotExist"}) \cup {"AssertExist"}
    [] op = "SetAssertNotExist" -> (f \ {"AssertExist"}) \cup {"AssertNotExist"}
    [] op = "SetAssertUnknown" -> f \cup {"AssertExist", "AssertNotExist"}
    [] op = "SetAssertNone" -> f \ {"AssertExist", "AssertNotExist"}
    [] op = "SetNeedConstraintCheckInPrewrite" -> f \cup {"NeedConstraintCheckInPrewrite"}
    [] op = "DelNeedConstraintCheckInPrewrite" -> f \ {"NeedConstraintCheckInPrewrite"}
    [] op = "SetPreviousPresumeKNE" -> f \cup {"PreviousPresumeKNE"}
    [] op = "SetKeyLockedInShareMode" -> f \cup {"KeyLockedInShareMode"}
    [] op = "SetKeyLockedInExclusiveMode" -> f \ {"KeyLockedInShareMode"}
RECURSIVE ApplyOps(_, _)
ApplyOps(f, ops) == IF ops = <<>> THEN f ELSE ApplyOps(ApplyOp(f, Head(ops)), Tail(ops))

EmptyBuf(nkeys, klen) ==
  [nkeys |-> nkeys, klen |-> klen, log |-> <<>>, head |-> [k \in 1..nkeys |-> 0], present |-> [k \in 1..nkeys |-> FALSE],
   flags |-> [k \in 1..nkeys |-> {}], stages |-> <<>>, len |-> 0, size |-> 0, dirty |-> FALSE,
   entryLimit |-> -1, bufferLimit |-> -1]            \* -1 = unlimited
Keys(s) == 1..s.nkeys
Ret(res, out, s) == [res |-> res, out |-> out, s |-> s]

ValOf(s, k) == IF s.head[k] = 0 THEN NoVal ELSE s.log[s.head[k]].v
\* the newest value of k not newer than log position p
RECURSIVE AtOrBefore(_, _, _)
AtOrBefore(s, i, p) == IF i = 0 THEN NoVal ELSE IF i <= p THEN s.log[i].v ELSE AtOrBefore(s, s.log[i].prev, p)
SnapPos(s) == IF s.stages = <<>> THEN Len(s.log) ELSE s.stages[1]
SnapValOf(s, k) == AtOrBefore(s, s.head[k], SnapPos(s))

(********************************** writes ************************************)
\* Set / SetWithFlags / Delete / DeleteWithFlags (v # NoVal) and UpdateFlags (v = NoVal)
Write(s, k, v, ops) ==
  IF s.klen[k] > MaxKeyLen THEN Ret("keytoolarge", <<>>, s)
  ELSE IF v # NoVal /\ s.entryLimit >= 0 /\ s.klen[k] + v.n > s.entryLimit THEN Ret("entrytoolarge", <<>>, s)
  ELSE
  LET counted == s.present[k]
      f0 == IF counted THEN s.flags[k] ELSE {}
      f1 == IF v # NoVal THEN ApplyOps(f0, <<"DelNeedConstraintCheckInPrewrite">> \o ops) ELSE ApplyOps(f0, ops)
      s1 == [s EXCEPT !.present[k] = TRUE, !.flags[k] = f1,
                      !.len = IF counted THEN @ ELSE @ + 1,
                      !.size = IF counted THEN @ ELSE @ + s.klen[k],
                      !.dirty = @ \/ s.stages = <<>> \/ (f1 \cap Persistent # {})]
      old == ValOf(s, k)
      canModify == s.stages = <<>> \/ s.head[k] > s.stages[Len(s.stages)]
      inplace == old # NoVal /\ old.n > 0 /\ canModify /\ old.n = v.n
      s2 == IF v = NoVal THEN s1
            ELSE IF inplace THEN [s1 EXCEPT !.log[s.head[k]].v = v]
            ELSE [s1 EXCEPT !.log = Append(@, [k |-> k, v |-> v, prev |-> s.head[k]]),
                            !.head[k] = Len(s.log) + 1,
                            !.size = @ + v.n - (IF old = NoVal THEN 0 ELSE old.n)]
  IN IF v # NoVal /\ s.bufferLimit >= 0 /\ s2.size > s.bufferLimit THEN Ret("txntoolarge", <<>>, s2)
     ELSE Ret("ok", <<>>, s2)

\* undo the log down to position p (Cleanup of a stage, RevertToCheckpoint)
RECURSIVE RevertTo(_, _)
RevertTo(s, p) ==
  IF Len(s.log) <= p THEN s
  ELSE LET e == s.log[Len(s.log)]
           k == e.k
           kept == s.flags[k] \cap Persistent
           s1 == [s EXCEPT !.log = SubSeq(@, 1, Len(@) - 1), !.head[k] = e.prev, !.size = @ - e.v.n]
           s2 == IF e.prev # 0 THEN [s1 EXCEPT !.size = @ + s.log[e.prev].v.n]
                 ELSE IF kept = {} THEN [s1 EXCEPT !.present[k] = FALSE, !.flags[k] = {}, !.len = @ - 1, !.size = @ - s.klen[k]]
                 ELSE [s1 EXCEPT !.flags[k] = kept]
       IN RevertTo(s2, p)

Staging(s) == Ret("ok", Len(s.stages) + 1, [s EXCEPT !.stages = Append(@, Len(s.log))])
Release(s, h) ==
  IF h = 0 THEN Ret("ok", 0, s)
  ELSE IF h # Len(s.stages) THEN Ret("panic", 0, s)
  ELSE Ret("ok", 0, [s EXCEPT !.stages = SubSeq(@, 1, h - 1),
                              !.dirty = @ \/ (h = 1 /\ Len(s.log) # s.stages[1])])
Cleanup(s, h) ==
  IF h = 0 \/ h > Len(s.stages) THEN Ret("ok", 0, s)
  ELSE IF h < Len(s.stages) THEN Ret("panic", 0, s)
  ELSE Ret("ok", 0, [RevertTo(s, s.stages[h]) EXCEPT !.stages = SubSeq(s.stages, 1, h - 1)])
\* a checkpoint is a log position
Checkpoint(s) == Ret("ok", Len(s.log), s)
RevertToCheckpoint(s, p) == Ret("ok", 0, RevertTo(s, p))
SetLimits(s, e, b) == Ret("ok", 0, [s EXCEPT !.entryLimit = e, !.bufferLimit = b])

(********************************** reads *************************************)
Get(s, k) == IF ValOf(s, k) = NoVal THEN Ret("notexist", NoVal, s) ELSE Ret("ok", ValOf(s, k), s)
GetFlags(s, k) == IF s.present[k] THEN Ret("ok", s.flags[k], s) ELSE Ret("notexist", {}, s)
SnapGet(s, k) == IF SnapValOf(s, k) = NoVal THEN Ret("notexist", NoVal, s) ELSE Ret("ok", SnapValOf(s, k), s)
\* lo = 0 / hi = 0: unbounded; the range is [lo, hi)
InR(k, lo, hi) == (lo = 0 \/ k >= lo) /\ (hi = 0 \/ k < hi)
RECURSIVE Asc(_)
Asc(S) == IF S = {} THEN <<>> ELSE LET m == CHOOSE x \in S : \A y \in S : x <= y IN <<m>> \o Asc(S \ {m})
Rev(q) == [i \in 1..Len(q) |-> q[Len(q) + 1 - i]]
Pairs(s, ks, f(_, _)) == [i \in 1..Len(ks) |-> [k |-> ks[i], v |-> f(s, ks[i])]]
\* plain iteration yields every key that has a value entry (tombstones included), flag-only keys are skipped
IterKeys(s, lo, hi) == Asc({k \in Keys(s) : InR(k, lo, hi) /\ s.head[k] # 0})
Iter(s, lo, hi) == Ret("ok", Pairs(s, IterKeys(s, lo, hi), ValOf), s)
IterReverse(s, hi, lo) == Ret("ok", Pairs(s, Rev(IterKeys(s, lo, hi)), ValOf), s)
\* iteration with flags also yields live flag-only keys
IterFlagKeys(s, lo, hi) == Asc({k \in Keys(s) : InR(k, lo, hi) /\ (s.head[k] # 0 \/ s.present[k])})
SnapKeys(s, lo, hi) == Asc({k \in Keys(s) : InR(k, lo, hi) /\ SnapValOf(s, k) # NoVal})
SnapIter(s, lo, hi) == Ret("ok", Pairs(s, SnapKeys(s, lo, hi), SnapValOf), s)
SnapIterReverse(s, hi, lo) == Ret("ok", Pairs(s, Rev(SnapKeys(s, lo, hi)), SnapValOf), s)
\* entries written since stage h that are still their key's newest entry, newest first
RECURSIVE InspectFrom(_, _, _)
InspectFrom(s, i, p) == IF i <= p THEN <<>>
                        ELSE (IF s.head[s.log[i].k] = i THEN <<[k |-> s.log[i].k, v |-> s.log[i].v, flags |-> s.flags[s.log[i].k]]>> ELSE <<>>)
                             \o InspectFrom(s, i - 1, p)
InspectStage(s, h) == IF h < 1 \/ h > Len(s.stages) THEN Ret("panic", <<>>, s)
                      ELSE Ret("ok", InspectFrom(s, Len(s.log), s.stages[h]), s)
\* newest value in the key's history whose length is n
RECURSIVE HistFind(_, _, _)
HistFind(s, i, n) == IF i = 0 THEN NoVal ELSE IF s.log[i].v.n = n THEN s.log[i].v ELSE HistFind(s, s.log[i].prev, n)
SelectValueHistory(s, k, n) == IF s.head[k] = 0 THEN Ret("notexist", NoVal, s)
                               ELSE Ret("ok", HistFind(s, s.head[k], n), s)

(******************************** invariants **********************************)
SizeDef(s) == LET KS == {k \in Keys(s) : s.present[k]}
                  RECURSIVE Sum(_)
                  Sum(S) == IF S = {} THEN 0 ELSE LET x == CHOOSE y \in S : TRUE
                                                  IN s.klen[x] + (IF s.head[x] = 0 THEN 0 ELSE s.log[s.head[x]].v.n) + Sum(S \ {x})
              IN Sum(KS)
Consistent(s) == /\ s.len = Cardinality({k \in Keys(s) : s.present[k]})
                 /\ s.size = SizeDef(s)
                 /\ \A k \in Keys(s) : s.head[k] # 0 => s.present[k] /\ s.log[s.head[k]].k = k
                 /\ \A i \in 1..Len(s.stages) : s.stages[i] <= Len(s.log) /\ (i > 1 => s.stages[i - 1] <= s.stages[i])
=============================================================================
