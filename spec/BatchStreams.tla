---------------------------- MODULE BatchStreams ----------------------------
(* C18 - I-spec of the streams of one batchCommandsClient (internal/client/client_batch.go).       *)
(* One gRPC connection carries several BatchCommands streams: the direct one and one per forwarded   *)
(* host.  Every stream has its own batchRecvLoop with a LOCAL copy of the epoch; the client has one   *)
(* shared epoch.  When recv fails the loop runs recreateStreamingClient under the recreate lock:      *)
(*   CAS(c.epoch, local, local+1) succeeds -> failPendingRequests(own host), wait for the connection, *)
(*                                           re-create the stream                                     *)
(*   CAS fails (another stream bumped the epoch since this loop last looked)                          *)
(*                                         -> local := c.epoch, re-create the stream                  *)
(* FailOnStale = FALSE is the second branch as it was at the pinned commit: the entries pending on    *)
(* the broken stream are NOT failed, although the stream object is replaced and nothing will ever     *)
(* answer them (TLC: NoDeadPending fails after direct breaks, is re-created, then forwarded breaks).  *)
(* FailOnStale = TRUE is the repaired branch.                                                         *)
(* The stream of a forwarded host is opened by the first request for it (its loop starts with the   *)
(* epoch of that moment); the direct stream exists from the start.                                  *)
(* An entry remembers the incarnation (gen) of the stream it was sent on; answers travel on that      *)
(* incarnation only, the recv loop reads the current incarnation only.                                *)
EXTENDS Integers, FiniteSets, TLC
CONSTANTS Callers, Streams, MaxGen, MaxId, FailOnStale
VARIABLES state, myId, result, table, nextId, cepoch, lepoch, gen, broken, wire, opened
vars == <<state, myId, result, table, nextId, cepoch, lepoch, gen, broken, wire, opened>>
R(k, o) == [kind |-> k, owner |-> o]
Init == /\ state = [c \in Callers |-> "idle"] /\ myId = [c \in Callers |-> 0] /\ result = [c \in Callers |-> R("none", 0)]
        /\ table = {} /\ nextId = 1 /\ cepoch = 0 /\ lepoch = [s \in Streams |-> 0]
        /\ gen = [s \in Streams |-> 1] /\ broken = [s \in Streams |-> FALSE] /\ wire = {}
        /\ opened = [s \in Streams |-> s = "direct"]
\* batchSendLoop: one id source for all streams of the connection; the entry goes into the shared table, the request on stream s
Submit(c, s) ==
  /\ state[c] = "idle"
  /\ myId' = [myId EXCEPT ![c] = nextId] /\ nextId' = nextId + 1
  /\ table' = table \cup {[id |-> nextId, caller |-> c, stream |-> s, gen |-> gen[s]]}
  /\ state' = [state EXCEPT ![c] = "waiting"]
  \* initBatchClient: the stream of a forwarded host is opened by the first request for that host, its loop starts with the epoch of that moment
  /\ opened' = [opened EXCEPT ![s] = TRUE]
  /\ lepoch' = IF opened[s] THEN lepoch ELSE [lepoch EXCEPT ![s] = cepoch]
  /\ UNCHANGED <<result, cepoch, gen, broken, wire>>
\* the server read the request on a live incarnation and answers it (or never does)
ServerAnswer(e) ==
  /\ e \in table /\ e.gen = gen[e.stream] /\ ~broken[e.stream]
  /\ ~\E w \in wire : w.id = e.id
  /\ wire' = wire \cup {[id |-> e.id, owner |-> e.caller, stream |-> e.stream, gen |-> e.gen]}
  /\ UNCHANGED <<state, myId, result, table, nextId, cepoch, lepoch, gen, broken, opened>>
\* batchRecvLoop of stream w.stream: dispatch by id, unknown ids are dropped; only the current incarnation is read
Deliver(w) ==
  /\ w \in wire /\ w.gen = gen[w.stream] /\ wire' = wire \ {w}
  /\ IF \E e \in table : e.id = w.id
     THEN LET e == CHOOSE x \in table : x.id = w.id IN
          /\ table' = table \ {e}
          /\ IF state[e.caller] = "waiting" /\ myId[e.caller] = e.id
             THEN state' = [state EXCEPT ![e.caller] = "done"] /\ result' = [result EXCEPT ![e.caller] = R("resp", w.owner)]
             ELSE UNCHANGED <<state, result>>
     ELSE UNCHANGED <<table, state, result>>
  /\ UNCHANGED <<myId, nextId, cepoch, lepoch, gen, broken, opened>>
\* the server drops one stream, or the connection fails and every stream breaks
Break(S) ==
  /\ S # {} /\ \A s \in S : opened[s] /\ ~broken[s] /\ gen[s] < MaxGen
  /\ broken' = [s \in Streams |-> broken[s] \/ s \in S]
  /\ UNCHANGED <<state, myId, result, table, nextId, cepoch, lepoch, gen, wire, opened>>
FailPending(s) ==
  LET F == {e \in table : e.stream = s} IN
  /\ table' = table \ F
  /\ state' = [c \in Callers |-> IF \E e \in F : e.caller = c /\ e.id = myId[c] /\ state[c] = "waiting" THEN "done" ELSE state[c]]
  /\ result' = [c \in Callers |-> IF \E e \in F : e.caller = c /\ e.id = myId[c] /\ state[c] = "waiting" THEN R("err", 0) ELSE result[c]]
\* recreateStreamingClient, atomic under lockForRecreate
Recreate(s) ==
  /\ broken[s]
  /\ IF cepoch = lepoch[s]
     THEN /\ cepoch' = cepoch + 1 /\ lepoch' = [lepoch EXCEPT ![s] = cepoch + 1]
          /\ FailPending(s)
     ELSE /\ lepoch' = [lepoch EXCEPT ![s] = cepoch] /\ UNCHANGED cepoch
          /\ IF FailOnStale THEN FailPending(s) ELSE UNCHANGED <<table, state, result>>
  /\ gen' = [gen EXCEPT ![s] = @ + 1] /\ broken' = [broken EXCEPT ![s] = FALSE]
  /\ wire' = {w \in wire : w.stream # s}      \* what was in flight on the old incarnation is gone with it
  /\ UNCHANGED <<myId, nextId, opened>>
\* time-out or cancellation: the caller leaves, its entry is marked cancelled (removed)
Leave(c) ==
  /\ state[c] = "waiting"
  /\ state' = [state EXCEPT ![c] = "done"] /\ result' = [result EXCEPT ![c] = R("err", 0)]
  /\ table' = {e \in table : ~(e.caller = c /\ e.id = myId[c])}
  /\ UNCHANGED <<myId, nextId, cepoch, lepoch, gen, broken, wire, opened>>
Again(c) == state[c] = "done" /\ state' = [state EXCEPT ![c] = "idle"] /\ result' = [result EXCEPT ![c] = R("none", 0)]
            /\ UNCHANGED <<myId, table, nextId, cepoch, lepoch, gen, broken, wire, opened>>
Next == \/ \E c \in Callers : Leave(c) \/ Again(c) \/ \E s \in Streams : Submit(c, s)
        \/ \E e \in table : ServerAnswer(e)
        \/ \E w \in wire : Deliver(w)
        \/ \E S \in SUBSET Streams : Break(S)
        \/ \E s \in Streams : Recreate(s)
Spec == Init /\ [][Next]_vars
OwnResponse == \A c \in Callers : result[c].kind = "resp" => result[c].owner = c
IdsUnique == \A a, b \in table : a.id = b.id => a = b
NoOrphans == \A e \in table : state[e.caller] = "waiting" /\ myId[e.caller] = e.id
\* an entry never stays pending on an incarnation of its stream that has been replaced: nothing could answer or fail it any more,
\* its caller would come back by its own time-out only - a caller without a deadline never
NoDeadPending == \A e \in table : e.gen = gen[e.stream]
\* the epoch bookkeeping itself
EpochOK == \A s \in Streams : lepoch[s] <= cepoch
Bound == nextId <= MaxId
=============================================================================
