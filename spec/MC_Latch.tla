------------------------------ MODULE MC_Latch ------------------------------
(* Bounded exhaustive check of Latch.tla over a family of workloads, and generator of the     *)
(* method-level schedules replayed into internal/latch: with the path in `hist` hidden by the  *)
(* VIEW every distinct state is expanded once and each of its outgoing transitions prints the  *)
(* shortest path to it plus that transition - an edge cover of the state graph.                *)
EXTENDS Latch, Json
CONSTANTS Family, EmitOn         \* "quick" | "thorough" ; TRUE in the generator config
VARIABLES hist
mvars == <<vars, hist>>
mcTxn == {1, 2, 3}
mcKey == {1, 2, 3}
mcSlotOf == [k \in mcKey |-> IF k = 3 THEN 2 ELSE 1]
SeqsOf == {<<1>>, <<2>>, <<3>>, <<1, 2>>, <<1, 3>>, <<2, 3>>, <<1, 2, 3>>}
\* timestamp layouts: [start, commit] per transaction; relevant is which commits exceed which starts
TsFam == IF Family = "quick"
         THEN { [start |-> <<1, 2, 3>>, commit |-> <<4, 5, 6>>],      \* all overlap
                [start |-> <<1, 3, 5>>, commit |-> <<2, 4, 6>>],      \* sequential
                [start |-> <<3, 1, 4>>, commit |-> <<5, 2, 6>>],
                [start |-> <<1, 3, 4>>, commit |-> <<3, 4, 6>>] }     \* ties: a commit ts equal to another start ts is not newer
         ELSE { [start |-> s, commit |-> c] : s \in {<<1, 2, 3>>, <<1, 3, 5>>, <<3, 1, 4>>, <<5, 3, 1>>, <<2, 4, 1>>},
                                               c \in {<<4, 5, 6>>, <<2, 4, 6>>, <<5, 2, 6>>, <<6, 4, 2>>, <<3, 6, 7>>, <<3, 4, 6>>} }
KeyFam == IF Family = "quick"
          THEN { <<a, b, c>> : a \in {<<1, 2>>, <<1, 2, 3>>}, b \in {<<2>>, <<2, 3>>, <<1, 3>>}, c \in {<<1>>, <<1, 3>>, <<2, 3>>} }
          ELSE { <<a, b, c>> : a \in SeqsOf, b \in SeqsOf, c \in SeqsOf }
WellFormed(ts) == \A t \in mcTxn : ts.start[t] < ts.commit[t]
MCInit == /\ InitDyn /\ hist = <<>>
          /\ \E ks \in KeyFam, ts \in {x \in TsFam : WellFormed(x)} :
               cfg = [keys |-> ks, start |-> ts.start, commit |-> ts.commit]
Step(name, t, A) == /\ A /\ hist' = Append(hist, [a |-> name, t |-> t])
                    /\ (EmitOn => PrintT(<<"SCN", ToJson([cfg |-> cfg, steps |-> hist']) >>))
MCNext == \/ \E t \in Txn : Step("start", t, Start(t)) \/ Step("acq", t, SelfAcquire(t)) \/ Step("unlock", t, UnLock(t))
          \/ Step("take", 0, SchedTake) \/ Step("rel", 0, SchedReleaseSlot) \/ Step("wake", 0, SchedWake)
MCSpec == MCInit /\ [][MCNext]_mvars
LiveNext == Next /\ UNCHANGED hist
MCLive == MCInit /\ [][LiveNext]_mvars /\ Fairness
View == vars
=============================================================================
