SPECIFICATION TSpec
CONSTANTS Txn = {1, 2, 3} Key = {1, 2, 3} SlotOf <- trSlotOf
INVARIANTS Exclusive StaleExactly
POSTCONDITION Done
CHECK_DEADLOCK FALSE
