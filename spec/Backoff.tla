------------------------------ MODULE Backoff ------------------------------
(* C20 - back-off budget accounting, per-kind exponential windows, clone / fork / merge.   *)
(* One action per public method of retry.Backoffer.  The amount slept is the only          *)
(* non-determinism (jitter); it is an explicit parameter `s` of the Backoff action so that *)
(* the model checker quantifies over the window and the trace spec binds it from the log.  *)
(* Reading of the property where it is silent:                                             *)
(*  - a back-off fails with "budget exceeded" iff, before sleeping, the non-excluded sleep *)
(*    total has reached the budget (or, for an excluded kind, the excluded total reached   *)
(*    both its own limit and the budget); budget <= 0 means unlimited;                     *)
(*  - merging a fork replaces the ancestor's accounting by the fork's (the callers merge   *)
(*    only the last fork and do not back off on the ancestor in between);                  *)
(*  - DecorrJitter is not modelled (no Config of the repository uses it).                  *)
EXTENDS Integers, Sequences, FiniteSets, TLC

Kinds == {"regionMiss", "tikvRPC", "tikvServerBusy", "txnLockFast", "tikvDiskFull", "customFull", "tiny"}
CONSTANT ExcludedLimit          \* test-settable cap of the excluded kind (600000 in production)
Cfg(k) ==
  CASE k = "regionMiss"     -> [base |-> 2,    cap |-> 500,   jit |-> "no",    excl |-> FALSE, err |-> "ErrRegionUnavailable"]
    [] k = "tikvRPC"        -> [base |-> 100,  cap |-> 2000,  jit |-> "equal", excl |-> FALSE, err |-> "ErrTiKVServerTimeout"]
    [] k = "tikvServerBusy" -> [base |-> 2000, cap |-> 10000, jit |-> "equal", excl |-> TRUE,  err |-> "ErrTiKVServerBusy"]
    [] k = "txnLockFast"    -> [base |-> 0,    cap |-> 3000,  jit |-> "equal", excl |-> FALSE, err |-> "ErrResolveLockTimeout"]
    [] k = "tikvDiskFull"   -> [base |-> 500,  cap |-> 5000,  jit |-> "no",    excl |-> FALSE, err |-> "ErrTiKVDiskFull"]
    [] k = "customFull"     -> [base |-> 3,    cap |-> 700,   jit |-> "full",  excl |-> FALSE, err |-> "ErrCustomFull"]
    [] k = "tiny"           -> [base |-> 1,    cap |-> 10,    jit |-> "no",    excl |-> FALSE, err |-> "ErrTiny"]
MaxStep == 10000                \* largest cap of any kind = "one step"
MaxInt32 == 2147483647

Min(a, b) == IF a < b THEN a ELSE b
Max(a, b) == IF a > b THEN a ELSE b
RECURSIVE Expo(_, _, _)
Expo(base, cap, n) == IF n = 0 THEN Min(cap, base) ELSE Min(cap, 2 * Expo(base, cap, n - 1))
ZeroMap == [k \in Kinds |-> 0]

VARIABLES bos,        \* id -> back-offer record
          ctxParent,  \* ctx id -> parent ctx id (0 = none)
          cancelled,  \* set of cancelled ctx ids
          killed      \* set of killed vars groups
vars == <<bos, ctxParent, cancelled, killed>>
Ids == DOMAIN bos
NextId == Cardinality(Ids) + 1

RECURSIVE CtxDone(_)
CtxDone(c) == IF c = 0 THEN FALSE ELSE (c \in cancelled) \/ CtxDone(ctxParent[c])
RECURSIVE IsAncestor(_, _)
IsAncestor(a, f) == IF bos[f].parent = 0 THEN FALSE
                    ELSE bos[f].parent = a \/ IsAncestor(a, bos[f].parent)

Weighted(m, w) == IF m > 0 /\ (MaxInt32 \div w) >= m THEN m * w ELSE m

BaseOf(b, k) == LET raw == IF k = "txnLockFast" THEN bos[b].lockFast ELSE Cfg(k).base
                IN IF raw < 2 THEN 2 ELSE raw
\* the window [lo, hi] of the un-cut sleep of kind k on back-offer b
Window(b, k) ==
  LET v == Expo(BaseOf(b, k), Cfg(k).cap, bos[b].attempts[k])
  IN CASE Cfg(k).jit = "no"    -> [lo |-> v, hi |-> v]
       [] Cfg(k).jit = "full"  -> [lo |-> 0, hi |-> v - 1]
       [] Cfg(k).jit = "equal" -> [lo |-> v \div 2, hi |-> (v \div 2) + (v \div 2) - 1]
\* s is a legal real sleep for per-call maximum m (m < 0: none)
LegalSleep(b, k, m, s) ==
  LET w == Window(b, k)
  IN IF m >= 0 /\ w.hi > m
     THEN (s = m /\ w.hi >= m) \/ (s >= w.lo /\ s < m)      \* cut to m, or below it anyway
     ELSE s >= w.lo /\ s <= w.hi

Exceeded(b, k) ==
  LET r == bos[b]
  IN r.maxSleep > 0 /\
     ( (r.total - r.excluded) >= r.maxSleep
       \/ (Cfg(k).excl /\ r.excluded >= ExcludedLimit /\ r.excluded >= r.maxSleep) )
\* kinds that consumed the most non-excluded time
Longest(b) == {k \in Kinds : /\ ~Cfg(k).excl /\ bos[b].sleepMs[k] > 0
                             /\ \A j \in Kinds : ~Cfg(j).excl => bos[b].sleepMs[j] <= bos[b].sleepMs[k]}

Init == bos = <<>> /\ ctxParent = <<>> /\ cancelled = {} /\ killed = {}

New(max, weight, lockFast) ==
  LET id == NextId
  IN /\ bos' = Append(bos, [maxSleep |-> Weighted(max, weight), total |-> 0, excluded |-> 0, sleepMs |-> ZeroMap,
                            times |-> ZeroMap, attempts |-> ZeroMap, errorsNum |-> 0, parent |-> 0, ctx |-> id,
                            group |-> id, weight |-> weight, lockFast |-> lockFast, cfgs |-> {}, dead |-> FALSE, foreign |-> FALSE])
     /\ ctxParent' = Append(ctxParent, 0)
     /\ UNCHANGED <<cancelled, killed>>

\* result "nil": slept s.  Everything else leaves the accounting untouched except "killed" (checked after the sleep).
Backoff(b, k, m, s, res) ==
  /\ b \in Ids /\ ~bos[b].dead
  /\ IF CtxDone(bos[b].ctx)
     THEN res = "passed" /\ s = 0 /\ UNCHANGED vars
     ELSE IF Exceeded(b, k)
     THEN /\ s = 0
          /\ IF Longest(b) = {} THEN res = "passed"
             ELSE \E c \in Longest(b) : res = Cfg(c).err
          /\ UNCHANGED vars
     ELSE /\ LegalSleep(b, k, m, s)
          /\ res = (IF bos[b].group \in killed THEN "killed" ELSE "nil")
          /\ bos' = [bos EXCEPT ![b].total = @ + s,
                                ![b].excluded = IF Cfg(k).excl THEN @ + s ELSE @,
                                ![b].sleepMs[k] = @ + s,
                                ![b].times[k] = @ + 1,
                                ![b].attempts[k] = @ + 1,
                                ![b].errorsNum = @ + 1,
                                ![b].cfgs = @ \cup {k}]
          /\ UNCHANGED <<ctxParent, cancelled, killed>>

Clone(b) ==
  /\ b \in Ids /\ ~bos[b].dead
  /\ bos' = Append(bos, [bos[b] EXCEPT !.attempts = ZeroMap])      \* the per-kind functions are not copied
  /\ ctxParent' = Append(ctxParent, 0)                              \* unused slot: the clone shares b's ctx
  /\ UNCHANGED <<cancelled, killed>>
Fork(b) ==
  /\ b \in Ids /\ ~bos[b].dead
  /\ bos' = Append(bos, [bos[b] EXCEPT !.attempts = ZeroMap, !.parent = b, !.ctx = NextId])
  /\ ctxParent' = Append(ctxParent, bos[b].ctx)
  /\ UNCHANGED <<cancelled, killed>>
\* after the merge the fork shares its maps with b, so it must not be used any more
Merge(b, f) ==
  /\ b \in Ids /\ f \in Ids /\ ~bos[b].dead /\ ~bos[f].dead
  /\ IF IsAncestor(b, f)
     THEN bos' = [bos EXCEPT ![b].total = bos[f].total, ![b].excluded = bos[f].excluded,
                             ![b].errorsNum = bos[f].errorsNum, ![b].sleepMs = bos[f].sleepMs,
                             ![b].times = bos[f].times, ![f].dead = TRUE,
                             \* totals slept under another budget (the fork's was reset to a different one) are not b's own
                             ![b].foreign = bos[b].foreign \/ bos[f].foreign \/ bos[f].maxSleep # bos[b].maxSleep]
     ELSE UNCHANGED bos
  /\ UNCHANGED <<ctxParent, cancelled, killed>>
Reset(b) ==
  /\ b \in Ids /\ ~bos[b].dead
  /\ bos' = [bos EXCEPT ![b].total = 0, ![b].excluded = 0, ![b].attempts = ZeroMap, ![b].foreign = FALSE]
  /\ UNCHANGED <<ctxParent, cancelled, killed>>
ResetMaxSleep(b, m) ==
  /\ b \in Ids /\ ~bos[b].dead
  /\ bos' = [bos EXCEPT ![b].total = 0, ![b].excluded = 0, ![b].attempts = ZeroMap, ![b].foreign = FALSE,
                        ![b].maxSleep = Weighted(m, bos[b].weight)]
  /\ UNCHANGED <<ctxParent, cancelled, killed>>
Cancel(b) == /\ b \in Ids /\ cancelled' = cancelled \cup {bos[b].ctx} /\ UNCHANGED <<bos, ctxParent, killed>>
Kill(b) == /\ b \in Ids /\ killed' = killed \cup {bos[b].group} /\ UNCHANGED <<bos, ctxParent, cancelled>>

(********************************* properties *********************************)
\* non-excluded sleep never exceeds the budget by more than one step
\* (totals merged in from a fork that slept under a different budget are exempt until the next reset)
WithinBudget == \A b \in Ids : (bos[b].maxSleep > 0 /\ ~bos[b].foreign) =>
                   (bos[b].total - bos[b].excluded) <= bos[b].maxSleep + MaxStep
\* excluded sleep is bounded by its own limit (or the budget if larger) plus one step
ExcludedBounded == \A b \in Ids : (bos[b].maxSleep > 0 /\ ~bos[b].foreign) =>
                   bos[b].excluded <= Max(ExcludedLimit, bos[b].maxSleep) + MaxStep
Accounting == \A b \in Ids :
   /\ bos[b].total >= bos[b].excluded /\ bos[b].excluded >= 0
   /\ \A k \in Kinds : bos[b].sleepMs[k] >= 0 /\ bos[b].times[k] >= 0
=============================================================================
