------------------------------- MODULE Sender -------------------------------
(* C10 - abstract I-spec of one RegionRequestSender.SendReqCtx call: the retry loop of         *)
(* sendReqState.next (pick a replica, send, handle the send error or the region error, back    *)
(* off or switch peer, retry) against an adversarial store that may answer every attempt with  *)
(* any reply kind.  Per-replica attempt counters and the back-off budget are the only          *)
(* resources; the question is whether every path consumes one of them.                         *)
(* ChanceOnce = FALSE is the code at the pinned commit: a NotLeader reply naming another       *)
(* replica makes that replica the target and, if it was exhausted, gives it "one more chance"  *)
(* (replica.onUpdateLeader) - every time.  TLC then finds the lasso in which two stores keep   *)
(* naming each other: no back-off, no exhaustion, no end (known finding of C10).               *)
(* ChanceOnce = TRUE bounds the extra chances per replica (the model grants one, the repaired    *)
(* code - 6638d57 - at most maxReplicaAttempt): Terminates holds.                               *)
EXTENDS Integers, FiniteSets, TLC
CONSTANTS Replicas, MaxAttempt, Budget, ChanceOnce
VARIABLES pc, attempts, leader, target, budget, result, lastReply, chanced, sent, retryFlag
vars == <<pc, attempts, leader, target, budget, result, lastReply, chanced, sent, retryFlag>>
Kinds == {"ok", "rpc_error", "not_leader_hint", "not_leader_nohint", "busy", "fatal"}
Init == /\ pc = "pick" /\ attempts = [r \in Replicas |-> 0] /\ leader \in Replicas /\ target = 0 /\ budget = Budget
        /\ result = "none" /\ lastReply = "none" /\ chanced = {} /\ sent = 0 /\ retryFlag = FALSE
Exhausted(r) == attempts[r] >= MaxAttempt
\* choose the believed leader while it has attempts left, then any other replica, else give up with the pseudo region error
Pick ==
  /\ pc = "pick"
  /\ IF \A r \in Replicas : Exhausted(r)
     THEN pc' = "done" /\ result' = "region_error" /\ UNCHANGED <<target, attempts, sent, retryFlag>>
     ELSE /\ \E r \in Replicas :
               /\ ~Exhausted(r) /\ (~Exhausted(leader) => r = leader)
               /\ target' = r /\ attempts' = [attempts EXCEPT ![r] = @ + 1]
          /\ pc' = "wait" /\ sent' = (IF sent < 2 THEN sent + 1 ELSE 2) /\ retryFlag' = (sent > 0) /\ UNCHANGED result
  /\ UNCHANGED <<leader, budget, lastReply, chanced>>
\* one unit of back-off, or the budget error
Backoff(next) ==
  IF budget = 0 THEN pc' = "done" /\ result' = "error" /\ UNCHANGED budget
  ELSE budget' = budget - 1 /\ pc' = next /\ UNCHANGED result
Reply ==
  /\ pc = "wait"
  /\ \E k \in Kinds :
       /\ lastReply' = k
       /\ CASE k = "ok" -> pc' = "done" /\ result' = "resp" /\ UNCHANGED <<budget, leader, attempts, chanced>>
            [] k = "fatal" -> pc' = "done" /\ result' = "region_error" /\ UNCHANGED <<budget, leader, attempts, chanced>>
            [] k \in {"rpc_error", "not_leader_nohint", "busy"} -> Backoff("pick") /\ UNCHANGED <<leader, attempts, chanced>>
            [] k = "not_leader_hint" ->
                 \E r \in Replicas \ {target} :
                   /\ leader' = r
                   /\ IF Exhausted(r) /\ (ChanceOnce => r \notin chanced)
                      THEN attempts' = [attempts EXCEPT ![r] = MaxAttempt - 1] /\ chanced' = chanced \cup {r}
                      ELSE UNCHANGED <<attempts, chanced>>
                   /\ pc' = "pick" /\ UNCHANGED <<budget, result>>
  /\ UNCHANGED <<target, sent, retryFlag>>
Next == Pick \/ Reply
Spec == Init /\ [][Next]_vars /\ WF_vars(Next)
NoFabrication == result = "resp" => lastReply = "ok"
BudgetNeverNegative == budget >= 0
\* sent counts the attempts up to 2 (capped, so that the state space stays finite on the non-terminating lasso)
RetryMarked == (pc = "wait" /\ sent = 2) => retryFlag
Terminates == <>(pc = "done")
=============================================================================
