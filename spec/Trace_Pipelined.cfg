SPECIFICATION Spec
CONSTANT Keys = {1, 2, 3, 4}
POSTCONDITION Done
CHECK_DEADLOCK FALSE
