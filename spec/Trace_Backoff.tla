---------------------------- MODULE Trace_Backoff ----------------------------
(* Trace validation of retry.Backoffer against Backoff.tla (C20).  Each line is one method  *)
(* call with its result and the counters of the touched back-offer after the call.  A line  *)
(* that no Backoff.tla action explains is printed as MISMATCH and the model state is        *)
(* re-synchronised from the logged counters so that the rest of the run is still checked.   *)
EXTENDS Backoff, Json
Trace == ndJsonDeserialize("trace.ndjson")
VARIABLE pos
tvars == <<vars, pos>>
Ev == Trace[pos]
\* the logged counters of back-offer b equal the model's
Matches(st, r) == /\ st.maxSleep = r.maxSleep /\ st.total = r.total /\ st.excluded = r.excluded
                  /\ st.errorsNum = r.errorsNum
                  /\ \A k \in Kinds : st.sleepMs[k] = r.sleepMs[k] /\ st.times[k] = r.times[k]
Good ==
  LET e == Ev
  IN CASE e.op = "reset" -> bos' = <<>> /\ ctxParent' = <<>> /\ cancelled' = {} /\ killed' = {}
       [] e.op = "New" -> New(e.max, e.weight, e.lockFast) /\ e.id = NextId /\ Matches(e.st, bos'[e.id])
       [] e.op = "Backoff" -> /\ e.b \in Ids
                              /\ Backoff(e.b, e.kind, e.m, e.st.total - bos[e.b].total, e.res)
                              /\ Matches(e.st, bos'[e.b])
       [] e.op = "Clone" -> Clone(e.b) /\ e.id = NextId /\ Matches(e.st, bos'[e.id])
       [] e.op = "Fork" -> Fork(e.b) /\ e.id = NextId /\ Matches(e.st, bos'[e.id])
       [] e.op = "Merge" -> Merge(e.b, e.f) /\ Matches(e.st, bos'[e.b])
       [] e.op = "Reset" -> Reset(e.b) /\ Matches(e.st, bos'[e.b])
       [] e.op = "ResetMaxSleep" -> ResetMaxSleep(e.b, e.max) /\ Matches(e.st, bos'[e.b])
       [] e.op = "Cancel" -> Cancel(e.b)
       [] e.op = "Kill" -> Kill(e.b)
\* best-effort continuation after a mismatch: take the logged counters, keep the internals
Resync ==
  LET e == Ev
      tgt == IF e.op \in {"New", "Clone", "Fork"} THEN e.id ELSE e.b
      upd(r) == [r EXCEPT !.maxSleep = e.st.maxSleep, !.total = e.st.total, !.excluded = e.st.excluded,
                          !.errorsNum = e.st.errorsNum,
                          !.sleepMs = [k \in Kinds |-> e.st.sleepMs[k]], !.times = [k \in Kinds |-> e.st.times[k]],
                          !.attempts = IF e.op = "Backoff" /\ e.res \in {"nil", "killed"}
                                       THEN [r.attempts EXCEPT ![e.kind] = @ + 1] ELSE r.attempts]
  IN /\ e.op \in {"Backoff", "Merge", "Reset", "ResetMaxSleep"} /\ tgt \in Ids
     /\ bos' = [bos EXCEPT ![tgt] = upd(bos[tgt])]
     /\ UNCHANGED <<ctxParent, cancelled, killed>>
TInit == Init /\ pos = 1 /\ TLCSet(1, 0)
TNext == /\ pos <= Len(Trace) /\ pos' = pos + 1
         /\ \/ Good
            \/ /\ ~ENABLED Good
               /\ PrintT(<<"MISMATCH", pos, Ev.op, (IF Ev.op = "Backoff" THEN <<Ev.kind, Ev.res, Window(Ev.b, Ev.kind), Exceeded(Ev.b, Ev.kind), Longest(Ev.b), bos[Ev.b]>> ELSE <<>>)>>)
               /\ Resync
TSpec == TInit /\ [][TNext]_tvars
HW == IF TLCGet(1) < pos THEN TLCSet(1, pos) ELSE TRUE
Accepted == IF TLCGet(1) = Len(Trace) + 1 THEN TRUE
            ELSE Print(<<"REJECTED_AT_LINE", TLCGet(1), Trace[TLCGet(1)]>>, FALSE)
=============================================================================
