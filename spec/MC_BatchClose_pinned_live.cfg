SPECIFICATION Spec
CONSTANTS Callers = {1, 2, 3} Async = {1, 2} Limit = 1 FixedClose = FALSE
INVARIANTS TypeOK
PROPERTY AsyncReturnsEventually
CHECK_DEADLOCK FALSE
