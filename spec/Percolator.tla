---- MODULE Percolator ----
\* C01-C03 design-level I-spec: optimistic 2PC, one reader-resolver, TTL expiry, crash,
\* lost request/response on the primary commit (store and client in one module; MVCC.tla is the full store reference).
EXTENDS Integers, Sequences, FiniteSets, TLC
CONSTANTS Key, Writer, KeysOf, Primary, None, WithFaults

VARIABLES tso, lock, writes, expired,
          pc, start, commit, prewritten, result, bg,
          rpc, rts, reads
vars == <<tso, lock, writes, expired, pc, start, commit, prewritten, result, bg, rpc, rts, reads>>

Init ==
  /\ tso = 1
  /\ lock = [k \in Key |-> None]
  /\ writes = [k \in Key |-> {}]
  /\ expired = [w \in Writer |-> FALSE]
  /\ pc = [w \in Writer |-> "idle"]
  /\ start = [w \in Writer |-> 0] /\ commit = [w \in Writer |-> 0]
  /\ prewritten = [w \in Writer |-> {}]
  /\ result = [w \in Writer |-> "none"]
  /\ bg = [w \in Writer |-> {}]            \* keys with pending background commit / rollback
  /\ rpc = "idle" /\ rts = 0 /\ reads = {}

Rec(k, s) == {x \in writes[k] : x.start = s}
Committed(k, s)  == \E x \in Rec(k, s) : x.type = "Put"
RolledBack(k, s) == \E x \in Rec(k, s) : x.type = "Rollback"
Own(k, w) == lock[k] # None /\ lock[k].ts = start[w]
NewerCommit(k, ts) == \E x \in writes[k] : x.type = "Put" /\ x.commit > ts
Visible(k, ts) == LET S == {x \in writes[k] : x.type = "Put" /\ x.commit <= ts}
                  IN IF S = {} THEN 0 ELSE (CHOOSE x \in S : \A y \in S : y.commit <= x.commit).start

Alive(w) == pc[w] \notin {"crashed"}

Begin(w) == /\ pc[w] = "idle"
            /\ start' = [start EXCEPT ![w] = tso] /\ tso' = tso + 1
            /\ pc' = [pc EXCEPT ![w] = "prewrite"]
            /\ UNCHANGED <<lock, writes, expired, commit, prewritten, result, bg, rpc, rts, reads>>

\* one prewrite RPC for one key (one region per key)
Prewrite(w, k) ==
  /\ pc[w] = "prewrite" /\ k \in KeysOf[w] \ prewritten[w]
  /\ (IF lock[k] = None THEN TRUE ELSE lock[k].ts = start[w])
  /\ IF NewerCommit(k, start[w]) \/ RolledBack(k, start[w])
     THEN /\ pc' = [pc EXCEPT ![w] = "failed"] /\ result' = [result EXCEPT ![w] = "fail"]
          /\ bg' = [bg EXCEPT ![w] = prewritten[w]]
          /\ UNCHANGED <<lock, prewritten>>
     ELSE /\ lock' = [lock EXCEPT ![k] = [ts |-> start[w], primary |-> Primary[w], minc |-> 0]]
          /\ prewritten' = [prewritten EXCEPT ![w] = @ \cup {k}]
          /\ pc' = [pc EXCEPT ![w] = IF prewritten[w] \cup {k} = KeysOf[w] THEN "getcommit" ELSE "prewrite"]
          /\ UNCHANGED <<result, bg>>
  /\ UNCHANGED <<tso, writes, expired, start, commit, rpc, rts, reads>>

GetCommitTs(w) == /\ pc[w] = "getcommit"
                  /\ commit' = [commit EXCEPT ![w] = tso] /\ tso' = tso + 1
                  /\ pc' = [pc EXCEPT ![w] = "commitprimary"]
                  /\ UNCHANGED <<lock, writes, expired, start, prewritten, result, bg, rpc, rts, reads>>

StoreCommit(k, w) ==   \* effect of a Commit RPC on key k; returns via primed vars
  IF Own(k, w)
  THEN IF commit[w] < lock[k].minc THEN "expired"
       ELSE "apply"
  ELSE IF Committed(k, start[w]) THEN "already" ELSE "notfound"

CommitPrimary(w, fault) ==
  /\ pc[w] = "commitprimary"
  /\ LET p == Primary[w]  r == StoreCommit(p, w) IN
     CASE fault = "dropreq" ->
            /\ pc' = [pc EXCEPT ![w] = "done"] /\ result' = [result EXCEPT ![w] = "undet"]
            /\ UNCHANGED <<lock, writes, bg>>
       [] r = "apply" ->
            /\ lock' = [lock EXCEPT ![p] = None]
            /\ writes' = [writes EXCEPT ![p] = @ \cup {[type |-> "Put", start |-> start[w], commit |-> commit[w]]}]
            /\ pc' = [pc EXCEPT ![w] = "done"]
            /\ result' = [result EXCEPT ![w] = IF fault = "dropresp" THEN "undet" ELSE "ok"]
            /\ bg' = [bg EXCEPT ![w] = IF fault = "dropresp" THEN {} ELSE KeysOf[w] \ {p}]
       [] r = "already" ->
            /\ pc' = [pc EXCEPT ![w] = "done"]
            /\ result' = [result EXCEPT ![w] = IF fault = "dropresp" THEN "undet" ELSE "ok"]
            /\ bg' = [bg EXCEPT ![w] = IF fault = "dropresp" THEN {} ELSE KeysOf[w] \ {p}]
            /\ UNCHANGED <<lock, writes>>
       [] r = "expired" ->
            /\ pc' = [pc EXCEPT ![w] = "getcommit"]     \* fetch a fresh commit ts and retry
            /\ UNCHANGED <<lock, writes, result, bg>>
       [] r = "notfound" ->
            /\ pc' = [pc EXCEPT ![w] = "failed"]
            /\ result' = [result EXCEPT ![w] = IF fault = "dropresp" THEN "undet" ELSE "fail"]
            /\ bg' = [bg EXCEPT ![w] = IF fault = "dropresp" THEN {} ELSE KeysOf[w] \ {p}]
            /\ UNCHANGED <<lock, writes>>
  /\ UNCHANGED <<tso, expired, start, commit, prewritten, rpc, rts, reads>>

\* background work of a live client: commit secondaries after success, roll back after failure
Background(w, k) ==
  /\ Alive(w) /\ k \in bg[w]
  /\ bg' = [bg EXCEPT ![w] = @ \ {k}]
  /\ IF result[w] = "ok"
     THEN IF Own(k, w)
          THEN /\ lock' = [lock EXCEPT ![k] = None]
               /\ writes' = [writes EXCEPT ![k] = @ \cup {[type |-> "Put", start |-> start[w], commit |-> commit[w]]}]
          ELSE UNCHANGED <<lock, writes>>
     ELSE IF Committed(k, start[w]) THEN UNCHANGED <<lock, writes>>
          ELSE /\ lock' = [lock EXCEPT ![k] = IF Own(k, w) THEN None ELSE @]
               /\ writes' = [writes EXCEPT ![k] = @ \cup {[type |-> "Rollback", start |-> start[w], commit |-> start[w]]}]
  /\ UNCHANGED <<tso, expired, pc, start, commit, prewritten, result, rpc, rts, reads>>

Crash(w) == /\ \/ pc[w] \in {"prewrite", "getcommit", "commitprimary"}
               \/ (pc[w] \in {"done", "failed"} /\ bg[w] # {})
            /\ pc' = [pc EXCEPT ![w] = "crashed"]
            /\ UNCHANGED <<tso, lock, writes, expired, start, commit, prewritten, result, bg, rpc, rts, reads>>

Expire(w) == /\ start[w] # 0 /\ ~expired[w]
             /\ expired' = [expired EXCEPT ![w] = TRUE]
             /\ UNCHANGED <<tso, lock, writes, pc, start, commit, prewritten, result, bg, rpc, rts, reads>>

\* ---------------- reader / resolver ----------------
ReaderBegin == /\ rpc = "idle" /\ rts' = tso /\ tso' = tso + 1 /\ rpc' = "reading"
               /\ UNCHANGED <<lock, writes, expired, pc, start, commit, prewritten, result, bg, reads>>

WriterOf(ts) == CHOOSE w \in Writer : start[w] = ts

ReadKey(k) ==
  /\ rpc = "reading" /\ ~(\E r \in reads : r.k = k)
  /\ (IF lock[k] = None THEN TRUE ELSE (lock[k].ts > rts \/ lock[k].minc > rts))
  /\ reads' = reads \cup {[k |-> k, v |-> Visible(k, rts)]}
  /\ UNCHANGED <<tso, lock, writes, expired, pc, start, commit, prewritten, result, bg, rpc, rts>>

\* the reader met lock[k] (ts <= rts): check the primary, then act on the lock it met
ResolveMet(k) ==
  /\ rpc = "reading" /\ lock[k] # None /\ lock[k].ts <= rts
  /\ LET w == WriterOf(lock[k].ts)  p == lock[k].primary  s == lock[k].ts IN
     IF lock[p] # None /\ lock[p].ts = s
     THEN IF expired[w]
          THEN \* TTL expired: roll back the primary (and the met lock if it is the primary)
               /\ lock' = [lock EXCEPT ![p] = None]
               /\ writes' = [writes EXCEPT ![p] = @ \cup {[type |-> "Rollback", start |-> s, commit |-> s]}]
          ELSE \* live: push min-commit-ts above the reader
               /\ lock' = [lock EXCEPT ![p] = [@ EXCEPT !.minc = IF @ > rts THEN @ ELSE rts + 1],
                                       ![k] = IF k = p THEN [lock[p] EXCEPT !.minc = IF @ > rts THEN @ ELSE rts + 1]
                                              ELSE [@ EXCEPT !.minc = rts + 1]]
               /\ UNCHANGED writes
     ELSE IF Committed(p, s)
     THEN LET c == (CHOOSE x \in Rec(p, s) : x.type = "Put").commit IN
          /\ lock' = [lock EXCEPT ![k] = None]
          /\ writes' = [writes EXCEPT ![k] = @ \cup {[type |-> "Put", start |-> s, commit |-> c]}]
     ELSE IF RolledBack(p, s) \/ expired[w]
     THEN /\ lock' = [lock EXCEPT ![k] = None]
          /\ writes' = [writes EXCEPT ![k] = @ \cup {[type |-> "Rollback", start |-> s, commit |-> s]},
                                      ![p] = IF RolledBack(p, s) \/ p = k THEN @ ELSE @ \cup {[type |-> "Rollback", start |-> s, commit |-> s]}]
     ELSE UNCHANGED <<lock, writes>>      \* primary not there yet and not expired: wait
  /\ UNCHANGED <<tso, expired, pc, start, commit, prewritten, result, bg, rpc, rts, reads>>

Next ==
  \/ \E w \in Writer : Begin(w) \/ GetCommitTs(w) \/ Crash(w) \/ Expire(w)
                       \/ (\E k \in Key : Prewrite(w, k) \/ Background(w, k))
                       \/ (\E f \in (IF WithFaults THEN {"none", "dropreq", "dropresp"} ELSE {"none"}) : CommitPrimary(w, f))
  \/ ReaderBegin \/ \E k \in Key : ReadKey(k) \/ ResolveMet(k)
Spec == Init /\ [][Next]_vars

\* ---------------- properties ----------------
AllTs == 0..tso
HasCommitAt(k, w, ts) == \E x \in Rec(k, start[w]) : x.type = "Put" /\ x.commit <= ts
Partial(w, ts) == \E k1, k2 \in KeysOf[w] : HasCommitAt(k1, w, ts) /\ ~HasCommitAt(k2, w, ts) /\ ~Own(k2, w)
Atomicity == \A w \in Writer : start[w] # 0 => \A ts \in AllTs : ~Partial(w, ts)
SingleOutcome == \A w \in Writer : start[w] # 0 =>
                   ~(\E k1, k2 \in KeysOf[w] : Committed(k1, start[w]) /\ RolledBack(k2, start[w]))
OneCommitTs == \A w \in Writer : \A k1, k2 \in Key : \A x \in Rec(k1, start[w]), y \in Rec(k2, start[w]) :
                   (start[w] # 0 /\ x.type = "Put" /\ y.type = "Put") => x.commit = y.commit
Truthful == \A w \in Writer :
              /\ result[w] = "ok"   => Committed(Primary[w], start[w])
              /\ result[w] = "fail" => \A k \in KeysOf[w] : ~Committed(k, start[w])
SnapshotStable == \A r \in reads : Visible(r.k, rts) = r.v
====
