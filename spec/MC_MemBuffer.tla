----------------------------- MODULE MC_MemBuffer -----------------------------
(* Bounded exhaustive exploration of MemBuffer.tla: all operation sequences up to MaxOps over *)
(* 3 keys, 2 value lengths, staging depth <= 2.  Checks internal consistency (Len / Size      *)
(* equal their definitions), that Cleanup and RevertToCheckpoint restore exactly the view     *)
(* that existed when the stage / checkpoint was taken (values, presence, non-persistent       *)
(* flags), that Release keeps the writes, and that the snapshot view is immutable while a     *)
(* stage is open.                                                                             *)
EXTENDS MemBuffer
CONSTANT MaxOps
VARIABLES s, n, saved     \* saved: one record per open stage: the view when it was taken
mvars == <<s, n, saved>>
NK == 3
View(st) == [vals |-> [k \in 1..NK |-> ValOf(st, k)], len |-> st.len, size |-> st.size]
Vals == {[n |-> 1, b |-> 1], [n |-> 1, b |-> 2], [n |-> 2, b |-> 3], Tomb, NoVal}
OpsC == {<<>>, <<"SetKeyLocked">>, <<"SetPresumeKeyNotExists">>, <<"DelKeyLocked">>}
MCInit == s = EmptyBuf(NK, <<1, 2, 3>>) /\ n = 0 /\ saved = <<>>
Step(r) == s' = r.s /\ n' = n + 1
MCNext ==
  /\ n < MaxOps
  /\ \/ \E k \in 1..NK, v \in Vals, o \in OpsC : (v # NoVal \/ o # <<>>) /\ Step(Write(s, k, v, o)) /\ UNCHANGED saved
     \/ Len(s.stages) < 2 /\ Step(Staging(s)) /\ saved' = Append(saved, [view |-> View(s), snapvals |-> [k \in 1..NK |-> SnapValOf(s, k)],
                                                                            present |-> s.present, flags |-> s.flags])
     \/ Len(s.stages) > 0 /\ Step(Cleanup(s, Len(s.stages))) /\ saved' = SubSeq(saved, 1, Len(saved) - 1)
     \/ Len(s.stages) > 0 /\ Step(Release(s, Len(s.stages))) /\ saved' = SubSeq(saved, 1, Len(saved) - 1)
MCSpec == MCInit /\ [][MCNext]_mvars
InvConsistent == Consistent(s)
\* the snapshot ignores staged data: it is what it was when the outermost stage was opened
InvSnapshotStable == Len(s.stages) > 0 => \A k \in 1..NK : SnapValOf(s, k) = saved[1].view.vals[k]
\* Cleanup restores the view of Staging() exactly
CleanupRestores ==
  [][(Len(s.stages) > 0 /\ s' = Cleanup(s, Len(s.stages)).s) =>
       LET old == saved[Len(saved)]
       IN /\ View(s').vals = old.view.vals
          \* flags are not logged, hence not restored: the undo keeps, for a key that loses its last value, exactly the
          \* persistent flags it carries at that moment and drops the key if there are none (both implementations;
          \* checked step by step on the code by Trace_MemBuffer)
          /\ \A k \in 1..NK : old.view.vals[k] # NoVal => s'.present[k]
          /\ s'.size = SizeDef(s') /\ s'.len = Cardinality({k \in 1..NK : s'.present[k]})]_mvars
ReleaseKeeps == [][(Len(s.stages) > 0 /\ s' = Release(s, Len(s.stages)).s) => View(s') = View(s)]_mvars
=============================================================================
