SPECIFICATION Spec
CONSTANTS Replicas = {1, 2, 3} MaxAttempt = 2 Budget = 3 ChanceOnce = TRUE
INVARIANTS NoFabrication BudgetNeverNegative RetryMarked
PROPERTY Terminates
CHECK_DEADLOCK FALSE
