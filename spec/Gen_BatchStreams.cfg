SPECIFICATION GenSpec
CONSTANTS Callers = {1, 2, 3} Streams = {"direct", "fwd", "fwd2"} MaxGen = 4 MaxId = 12 FailOnStale = TRUE MaxDepth = 16
CHECK_DEADLOCK FALSE
