SPECIFICATION MCSpec
CONSTANTS Key = {1, 2} Txn = {1, 2} MaxDepth = 4 MaxTso = 5 EmitOn = FALSE
INVARIANTS InvNeverBoth InvScan InvRead InvIdem InvLatePrewrite InvGC InvMarker
VIEW VIEW_
CHECK_DEADLOCK FALSE
