-------------------------------- MODULE Latch --------------------------------
(* C17 - the local latch scheduler (internal/latch).  Implementation shaped: one action per   *)
(* latch-mutex critical section (acquireSlot / releaseSlot), the unlock channel, and the single *)
(* scheduler goroutine that releases and wakes up.  The workload (key sets, start and commit    *)
(* timestamps) is part of the state and chosen in the initial state, so one TLC run covers a    *)
(* whole family of workloads.  Node recycling (needs >= 5 keys in a slot and a 2 minute TSO gap)*)
(* is not modelled.                                                                             *)
EXTENDS Integers, Sequences, FiniteSets, TLC
CONSTANTS Txn, Key, SlotOf      \* Txn, Key: sets of integers (key order = integer order); SlotOf: [Key -> slot]
VARIABLES cfg,      \* [keys: [Txn -> sorted Seq(Key)], start: [Txn -> Nat], commit: [Txn -> Nat]]
          node,     \* [Key -> [exists, holder (0 = none), maxCommit]]
          waiting,  \* [Slot -> Seq(Txn)]
          acq,      \* acquiredCount
          stale, pc,
          chan,     \* unlock channel (FIFO)
          sched     \* scheduler goroutine: [pc, cur, wake]
vars == <<cfg, node, waiting, acq, stale, pc, chan, sched>>

Slots == {SlotOf[k] : k \in Key}
KeysOf(t) == cfg.keys[t]
N(t) == Len(KeysOf(t))
Max(a, b) == IF a > b THEN a ELSE b

InitDyn ==
  /\ node = [k \in Key |-> [exists |-> FALSE, holder |-> 0, maxCommit |-> 0]]
  /\ waiting = [s \in Slots |-> <<>>]
  /\ acq = [t \in Txn |-> 0] /\ stale = [t \in Txn |-> FALSE]
  /\ pc = [t \in Txn |-> "idle"]
  /\ chan = <<>>
  /\ sched = [pc |-> "idle", cur |-> 0, wake |-> <<>>]

\* one critical section of acquireSlot on behalf of t (by t's own goroutine or by the scheduler's wake-up)
AcquireSlotEffect(t) ==
  LET k == KeysOf(t)[acq[t] + 1]  s == SlotOf[k] IN
  IF ~node[k].exists
  THEN /\ node' = [node EXCEPT ![k] = [exists |-> TRUE, holder |-> t, maxCommit |-> 0]]
       /\ acq' = [acq EXCEPT ![t] = @ + 1]
       /\ UNCHANGED <<waiting, stale>>
       /\ pc' = [pc EXCEPT ![t] = IF acq[t] + 1 = N(t) THEN "holding" ELSE "acquiring"]
  ELSE IF node[k].maxCommit > cfg.start[t]
  THEN /\ stale' = [stale EXCEPT ![t] = TRUE]
       /\ pc' = [pc EXCEPT ![t] = "holding"]
       /\ UNCHANGED <<node, waiting, acq>>
  ELSE IF node[k].holder = 0
  THEN /\ node' = [node EXCEPT ![k].holder = t]
       /\ acq' = [acq EXCEPT ![t] = @ + 1]
       /\ UNCHANGED <<waiting, stale>>
       /\ pc' = [pc EXCEPT ![t] = IF acq[t] + 1 = N(t) THEN "holding" ELSE "acquiring"]
  ELSE /\ waiting' = [waiting EXCEPT ![s] = Append(@, t)]
       /\ pc' = [pc EXCEPT ![t] = "blocked"]
       /\ UNCHANGED <<node, acq, stale>>

Start(t) == /\ pc[t] = "idle" /\ pc' = [pc EXCEPT ![t] = "acquiring"]
            /\ UNCHANGED <<cfg, node, waiting, acq, stale, chan, sched>>
\* Lock() running in the caller's goroutine (not while the scheduler is acquiring for t)
SelfAcquire(t) == /\ pc[t] = "acquiring" /\ ~(sched.pc = "waking" /\ Head(sched.wake) = t)
                  /\ AcquireSlotEffect(t) /\ UNCHANGED <<cfg, chan, sched>>
UnLock(t) == /\ pc[t] = "holding"
             /\ chan' = Append(chan, t)
             /\ pc' = [pc EXCEPT ![t] = "unlocking"]
             /\ UNCHANGED <<cfg, node, waiting, acq, stale, sched>>
SchedTake == /\ sched.pc = "idle" /\ chan # <<>>
             /\ sched' = [pc |-> "releasing", cur |-> Head(chan), wake |-> <<>>]
             /\ chan' = Tail(chan)
             /\ UNCHANGED <<cfg, node, waiting, acq, stale, pc>>
FirstWaiterIdx(s, k) ==
  LET idxs == {i \in 1..Len(waiting[s]) : KeysOf(waiting[s][i])[acq[waiting[s][i]] + 1] = k}
  IN IF idxs = {} THEN 0 ELSE CHOOSE i \in idxs : \A j \in idxs : i <= j
RemoveAt(q, i) == SubSeq(q, 1, i - 1) \o SubSeq(q, i + 1, Len(q))
\* one releaseSlot critical section (or the end of release() when nothing is left)
SchedReleaseSlot ==
  /\ sched.pc = "releasing" /\ UNCHANGED cfg
  /\ LET t == sched.cur IN
     IF acq[t] = 0
     THEN /\ sched' = [sched EXCEPT !.pc = IF sched.wake = <<>> THEN "idle" ELSE "waking"]
          /\ pc' = [pc EXCEPT ![t] = "done"]
          /\ UNCHANGED <<node, waiting, acq, stale, chan>>
     ELSE LET k == KeysOf(t)[acq[t]]  s == SlotOf[k]
              commit == IF stale[t] THEN 0 ELSE cfg.commit[t]
              mc == Max(node[k].maxCommit, commit)
              i == FirstWaiterIdx(s, k) IN
          IF i = 0
          THEN /\ node' = [node EXCEPT ![k] = [@ EXCEPT !.holder = 0, !.maxCommit = mc]]
               /\ acq' = [acq EXCEPT ![t] = @ - 1]
               /\ UNCHANGED <<waiting, stale, pc, chan, sched>>
          ELSE LET w == waiting[s][i] IN
               /\ waiting' = [waiting EXCEPT ![s] = RemoveAt(@, i)]
               /\ sched' = [sched EXCEPT !.wake = Append(@, w)]
               /\ IF mc > cfg.start[w]
                  THEN /\ node' = [node EXCEPT ![k] = [@ EXCEPT !.holder = w, !.maxCommit = mc]]
                       /\ acq' = [acq EXCEPT ![t] = @ - 1, ![w] = @ + 1]
                       /\ stale' = [stale EXCEPT ![w] = TRUE]
                  ELSE /\ node' = [node EXCEPT ![k] = [@ EXCEPT !.holder = 0, !.maxCommit = mc]]
                       /\ acq' = [acq EXCEPT ![t] = @ - 1]
                       /\ UNCHANGED stale
               /\ UNCHANGED <<pc, chan>>
\* wakeup(): the scheduler goroutine runs acquire(w), one slot per step
SchedWake ==
  /\ sched.pc = "waking" /\ UNCHANGED cfg
  /\ LET w == Head(sched.wake)
         popped == [sched EXCEPT !.wake = Tail(@), !.pc = IF Tail(sched.wake) = <<>> THEN "idle" ELSE "waking"] IN
     IF stale[w]
     THEN /\ pc' = [pc EXCEPT ![w] = "holding"] /\ sched' = popped
          /\ UNCHANGED <<node, waiting, acq, stale, chan>>
     ELSE /\ AcquireSlotEffect(w) /\ UNCHANGED chan
          /\ sched' = IF pc'[w] = "acquiring" THEN sched ELSE popped

Next == \/ \E t \in Txn : Start(t) \/ SelfAcquire(t) \/ UnLock(t)
        \/ SchedTake \/ SchedReleaseSlot \/ SchedWake

(********************************* properties *********************************)
AllDone == \A t \in Txn : pc[t] = "done"
NoDeadlock == (ENABLED Next) \/ AllDone
\* between a successful non-stale lock and its unlock nobody else holds any of its keys
Exclusive == \A t \in Txn : (pc[t] = "holding" /\ ~stale[t]) =>
                \A i \in 1..N(t) : node[KeysOf(t)[i]].holder = t
\* stale exactly when some requested key was released with a commit ts above the requester's start ts
StaleExactly == \A t \in Txn : pc[t] = "holding" =>
                (stale[t] <=> \E i \in 1..N(t) : node[KeysOf(t)[i]].exists /\ node[KeysOf(t)[i]].maxCommit > cfg.start[t])
\* structural: a blocked transaction sits in exactly one waiting list; nobody waits for a free key forever
InWaiting(t) == \E s \in Slots : \E i \in 1..Len(waiting[s]) : waiting[s][i] = t
InWake(t) == \E i \in 1..Len(sched.wake) : sched.wake[i] = t
WaitingSound == \A t \in Txn : /\ InWaiting(t) => pc[t] = "blocked"
                               /\ pc[t] = "blocked" => (InWaiting(t) \/ InWake(t))
\* every request returns provided holders unlock and the scheduler runs
Fairness == /\ \A t \in Txn : WF_vars(Start(t)) /\ WF_vars(SelfAcquire(t)) /\ WF_vars(UnLock(t))
            /\ WF_vars(SchedTake) /\ WF_vars(SchedReleaseSlot) /\ WF_vars(SchedWake)
EventuallyAllReturn == <>AllDone
=============================================================================
