SPECIFICATION Spec
CONSTANTS NKeys = 2 MaxChg = 2 MaxLimit = 2
PROPERTY Terminates
CHECK_DEADLOCK FALSE
