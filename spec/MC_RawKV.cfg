SPECIFICATION Spec
CONSTANTS NKeys = 3 MaxChg = 2 MaxLimit = 3
INVARIANTS DoneOK RoutedRight CacheDisjoint Partial
CHECK_DEADLOCK FALSE
