SPECIFICATION MCSpec
CONSTANTS Key = {1, 2} Txn = {1, 2} MaxDepth = 3 MaxTso = 4 EmitOn = TRUE
VIEW VIEW_
CHECK_DEADLOCK FALSE
