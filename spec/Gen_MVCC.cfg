SPECIFICATION MCSpec
CONSTANTS Key = {1, 2} Txn = {1, 2} MaxDepth = 3 MaxTso = 4
CONSTRAINT Emit
CHECK_DEADLOCK FALSE
