SPECIFICATION MCLive
CONSTANTS Txn <- mcTxn Key <- mcKey SlotOf <- mcSlotOf Family = "quick" EmitOn = FALSE
PROPERTY EventuallyAllReturn
CHECK_DEADLOCK FALSE
