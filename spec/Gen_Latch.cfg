SPECIFICATION MCSpec
CONSTANTS Txn <- mcTxn Key <- mcKey SlotOf <- mcSlotOf Family = "quick" EmitOn = TRUE
VIEW View
CHECK_DEADLOCK FALSE
