SPECIFICATION TSpec
CONSTANTS Callers = {1, 2, 3} Streams = {"direct", "fwd", "fwd2"} MaxGen = 100 MaxId = 1000 FailOnStale = TRUE
INVARIANTS OwnResponse IdsUnique NoOrphans NoDeadPending
POSTCONDITION Done
CHECK_DEADLOCK FALSE
