SPECIFICATION Spec
CONSTANTS Keys = {1, 2, 3} P = 1 MaxTs = 3 MaxRounds = 2 CleanupOnUndetermined = FALSE NonLockingCheck = FALSE
INVARIANTS OneOutcome AckHolds FailHolds ReadStable SnapshotAtomic CommitTsOK
CHECK_DEADLOCK FALSE
