SPECIFICATION Spec
CONSTANTS
 Key <- mcKey
 Writer <- mcWriter
 KeysOf <- mcKeysOf
 Primary <- mcPrimary
 None = None
 WithFaults = TRUE
INVARIANTS Atomicity SingleOutcome OneCommitTs Truthful SnapshotStable
CHECK_DEADLOCK FALSE
