------------------------------ MODULE MC_RawKV ------------------------------
(* The I-spec of rawkv.Client's multi-region calls, one call per behaviour, checked against   *)
(* the P-spec of RawKV.tla.  One action per client step of rawkv.go:                           *)
(*   Locate   - regionCache.LocateKey / LocateEndKey (cache hit, or load from PD and evict the  *)
(*              overlapping entries)                                                            *)
(*   Send     - the request reaches the store: accepted only if the region the client addressed *)
(*              is a region of the current layout (epoch check), otherwise the cache entry is   *)
(*              dropped and the step is retried (sendReq / sendDeleteRangeReq loop)             *)
(*   Group    - GroupKeysByRegion for the batch calls                                           *)
(*   SendBatch- doBatchReq / doBatchPut for one group, in any order; a rejected group is        *)
(*              re-grouped on its own (recursive sendBatchReq / sendBatchPut)                   *)
(*   Topo     - a split or a merge, enabled between any two client steps (at most MaxChg)       *)
EXTENDS RawKV, TLC
CONSTANTS MaxChg, MaxLimit
VARIABLES ph, m0, m, layout, cache, call, cur, loc, acc, cnt, pending, chg, bad
vars == <<ph, m0, m, layout, cache, call, cur, loc, acc, cnt, pending, chg, bad>>

Stores == [Keys -> {None, 1}]
Layouts == SUBSET Splits
Regions(L) == {RegionOf(L, k) : k \in Keys}
NoRegion == [lo |-> -1, hi |-> -1]
Bounds == 0..NKeys
KeySets == SUBSET Keys \ {{}}
Calls ==
  {[op |-> "Scan", s |-> s, e |-> e, limit |-> l] : s \in Bounds, e \in Bounds, l \in 0..MaxLimit} \cup
  {[op |-> "ReverseScan", s |-> s, e |-> e, limit |-> l] : s \in Bounds, e \in Bounds, l \in 0..MaxLimit} \cup
  {[op |-> "DeleteRange", s |-> s, e |-> e] : s \in Bounds, e \in Bounds} \cup
  {[op |-> "Checksum", s |-> s, e |-> e] : s \in Bounds, e \in Bounds} \cup
  {[op |-> o, ks |-> ks] : o \in {"BatchGet", "BatchPut", "BatchDelete"}, ks \in KeySets} \cup
  {[op |-> o, k |-> k] : o \in {"Get", "Put", "Delete"}, k \in Keys}
IsRange == call.op \in {"Scan", "ReverseScan", "DeleteRange", "Checksum"}
IsBatch == call.op \in {"BatchGet", "BatchPut", "BatchDelete"}

Init == /\ ph = "init" /\ m0 = [k \in Keys |-> None] /\ m = m0 /\ layout = {} /\ cache = {}
        /\ call = [op |-> "none"] /\ cur = 0 /\ loc = NoRegion /\ acc = <<>> /\ cnt = 0 /\ pending = {} /\ chg = 0 /\ bad = FALSE

\* every store, every layout, every cache left behind by an older layout, every call
Start ==
  /\ ph = "init"
  /\ \E st \in Stores, L \in Layouts, old \in Layouts, c \in Calls :
       \E oc \in SUBSET Regions(old) :
         /\ m0' = st /\ m' = st /\ layout' = L /\ cache' = oc /\ call' = c
         /\ cur' = IF c.op \in {"Scan", "ReverseScan", "DeleteRange", "Checksum"} THEN c.s ELSE 0
         /\ ph' = IF c.op \in {"Scan", "ReverseScan", "DeleteRange", "Checksum"} THEN "locate"
                  ELSE IF c.op \in {"Get", "Put", "Delete"} THEN "locate" ELSE "group"
  /\ UNCHANGED <<loc, acc, cnt, pending, chg, bad>>

\* regionCache.LocateKey: a cached region holding the key, else the current one from PD
LookupKey(c, k) ==
  LET hit == {r \in c : Holds(r, k)} IN
  IF hit # {} THEN [r |-> CHOOSE r \in hit : TRUE, c |-> c]
  ELSE LET r == RegionOf(layout, k) IN [r |-> r, c |-> {x \in c : ~Overlap(x, r)} \cup {r}]
LookupEnd(c, k) ==
  LET hit == {r \in c : HoldsEnd(r, k)} IN
  IF hit # {} THEN [r |-> CHOOSE r \in hit : TRUE, c |-> c]
  ELSE LET r == RegionEnding(layout, k) IN [r |-> r, c |-> {x \in c : ~Overlap(x, r)} \cup {r}]

Guard ==
  CASE call.op = "Scan" -> Len(acc) < call.limit /\ (call.e = 0 \/ cur < call.e)
    [] call.op = "ReverseScan" -> Len(acc) < call.limit /\ cur > call.e
    [] call.op \in {"DeleteRange", "Checksum"} -> call.e = 0 \/ cur < call.e
    [] OTHER -> TRUE

Locate ==
  /\ ph = "locate"
  /\ IF ~Guard THEN ph' = "done" /\ UNCHANGED <<loc, cache>>
     ELSE LET k == IF IsRange THEN cur ELSE call.k
              l == IF call.op = "ReverseScan" THEN LookupEnd(cache, k) ELSE LookupKey(cache, k)
          IN loc' = l.r /\ cache' = l.c /\ ph' = "send"
  /\ UNCHANGED <<m0, m, layout, call, cur, acc, cnt, pending, chg, bad>>

Clamp(e, hi) == IF hi = 0 THEN e ELSE IF e = 0 \/ hi < e THEN hi ELSE e
Send ==
  /\ ph = "send"
  /\ IF ~Current(layout, loc)
     THEN cache' = cache \ {loc} /\ ph' = "locate" /\ UNCHANGED <<m, cur, acc, cnt, bad>>
     ELSE
       /\ UNCHANGED cache
       /\ CASE call.op = "Scan" ->
                 LET up == Clamp(call.e, loc.hi)
                     got == Take(Asc(Live(m, {k \in Keys : k >= cur /\ (up = 0 \/ k < up)})), call.limit - Len(acc))
                 IN acc' = acc \o got /\ cur' = loc.hi /\ ph' = (IF loc.hi = 0 THEN "done" ELSE "locate")
                    /\ bad' = (bad \/ ~Holds(loc, cur)) /\ UNCHANGED <<m, cnt>>
            [] call.op = "ReverseScan" ->
                 LET low == IF call.e > loc.lo THEN call.e ELSE loc.lo
                     got == Take(Desc(Live(m, {k \in Keys : k < cur /\ k >= low})), call.limit - Len(acc))
                 IN acc' = acc \o got /\ cur' = loc.lo /\ ph' = (IF loc.lo = 0 THEN "done" ELSE "locate")
                    /\ bad' = (bad \/ ~HoldsEnd(loc, cur)) /\ UNCHANGED <<m, cnt>>
            [] call.op = "DeleteRange" ->
                 LET ae == IF loc.hi # 0 /\ (call.e = 0 \/ loc.hi < call.e) THEN loc.hi ELSE call.e
                 IN m' = [k \in Keys |-> IF InRange(k, cur, ae) THEN None ELSE m[k]]
                    /\ cur' = ae /\ ph' = (IF ae = 0 THEN "done" ELSE "locate")
                    /\ bad' = (bad \/ ~Holds(loc, cur)) /\ UNCHANGED <<acc, cnt>>
            [] call.op = "Checksum" ->
                 LET up == Clamp(call.e, loc.hi)
                 IN cnt' = cnt + Cardinality(Live(m, {k \in Keys : k >= cur /\ (up = 0 \/ k < up)}))
                    /\ cur' = loc.hi /\ ph' = (IF loc.hi = 0 THEN "done" ELSE "locate")
                    /\ bad' = (bad \/ ~Holds(loc, cur)) /\ UNCHANGED <<m, acc>>
            [] call.op = "Get" -> acc' = <<m[call.k]>> /\ ph' = "done" /\ bad' = (bad \/ ~Holds(loc, call.k)) /\ UNCHANGED <<m, cur, cnt>>
            [] call.op = "Put" -> m' = PPut(m, call.k, 1) /\ ph' = "done" /\ bad' = (bad \/ ~Holds(loc, call.k)) /\ UNCHANGED <<acc, cur, cnt>>
            [] call.op = "Delete" -> m' = PDelete(m, call.k) /\ ph' = "done" /\ bad' = (bad \/ ~Holds(loc, call.k)) /\ UNCHANGED <<acc, cur, cnt>>
  /\ UNCHANGED <<m0, layout, call, loc, pending, chg>>

\* GroupKeysByRegion over the keys in order; the cache is updated by the misses
RECURSIVE GroupQ(_, _, _)
GroupQ(q, c, g) ==
  IF q = <<>> THEN [c |-> c, g |-> g]
  ELSE LET l == LookupKey(c, Head(q))
           old == {b \in g : b.r = l.r}
           ks == IF old = {} THEN {Head(q)} ELSE (CHOOSE b \in old : TRUE).ks \cup {Head(q)}
       IN GroupQ(Tail(q), l.c, (g \ old) \cup {[r |-> l.r, ks |-> ks]})
Group ==
  /\ ph = "group"
  /\ LET gr == GroupQ(Asc(call.ks), cache, {}) IN cache' = gr.c /\ pending' = gr.g
  /\ ph' = "batch"
  /\ UNCHANGED <<m0, m, layout, call, cur, loc, acc, cnt, chg, bad>>
SendBatch ==
  /\ ph = "batch"
  /\ IF pending = {} THEN ph' = "done" /\ UNCHANGED <<m, cache, pending, acc, bad>>
     ELSE \E b \in pending :
       IF ~Current(layout, b.r)
       THEN LET gr == GroupQ(Asc(b.ks), cache \ {b.r}, {})
            IN cache' = gr.c /\ pending' = (pending \ {b}) \cup gr.g /\ UNCHANGED <<m, acc, bad, ph>>
       ELSE /\ pending' = pending \ {b} /\ UNCHANGED <<cache, ph>>
            /\ bad' = (bad \/ \E k \in b.ks : ~Holds(b.r, k))
            /\ CASE call.op = "BatchGet" -> acc' = acc \o [i \in 1..Cardinality(b.ks) |-> <<Asc(b.ks)[i], m[Asc(b.ks)[i]]>>] /\ UNCHANGED m
                 [] call.op = "BatchPut" -> m' = [k \in Keys |-> IF k \in b.ks THEN 1 ELSE m[k]] /\ UNCHANGED acc
                 [] call.op = "BatchDelete" -> m' = [k \in Keys |-> IF k \in b.ks THEN None ELSE m[k]] /\ UNCHANGED acc
  /\ UNCHANGED <<m0, layout, call, cur, loc, cnt, chg>>

Topo ==
  /\ ph \notin {"init", "done"} /\ chg < MaxChg
  /\ \E b \in Splits : layout' = (IF b \in layout THEN layout \ {b} ELSE layout \cup {b})
  /\ chg' = chg + 1
  /\ UNCHANGED <<ph, m0, m, cache, call, cur, loc, acc, cnt, pending, bad>>

Client == Start \/ Locate \/ Send \/ Group \/ SendBatch
Next == Client \/ Topo
Spec == Init /\ [][Next]_vars /\ WF_vars(Client)

\* ---- properties -----------------------------------------------------------------------------
DoneOK ==
  ph = "done" =>
    CASE call.op = "Scan" -> acc = PScanKeys(m0, call.s, call.e, call.limit) /\ m = m0
      [] call.op = "ReverseScan" -> acc = PRevKeys(m0, call.s, call.e, call.limit) /\ m = m0
      [] call.op = "DeleteRange" -> m = PDeleteRange(m0, call.s, call.e)
      [] call.op = "Checksum" -> cnt = PCount(m0, call.s, call.e) /\ m = m0
      [] call.op = "BatchGet" -> SetOfSeq(acc) = {<<k, m0[k]>> : k \in call.ks} /\ Len(acc) = Cardinality(call.ks) /\ m = m0
      [] call.op = "BatchPut" -> m = [k \in Keys |-> IF k \in call.ks THEN 1 ELSE m0[k]]
      [] call.op = "BatchDelete" -> m = [k \in Keys |-> IF k \in call.ks THEN None ELSE m0[k]]
      [] call.op = "Get" -> acc = <<m0[call.k]>> /\ m = m0
      [] call.op = "Put" -> m = PPut(m0, call.k, 1)
      [] call.op = "Delete" -> m = PDelete(m0, call.k)
\* no request is ever accepted by a region that does not hold the keys it names
RoutedRight == ~bad
\* the cache never holds two overlapping entries
CacheDisjoint == \A a, b \in cache : a # b => ~Overlap(a, b)
\* a partial result never contains a key outside the requested range, never a duplicate
Partial == (call.op \in {"Scan", "ReverseScan"}) =>
             /\ \A i, j \in 1..Len(acc) : i < j => (IF call.op = "Scan" THEN acc[i] < acc[j] ELSE acc[i] > acc[j])
             /\ Len(acc) <= call.limit
Terminates == <>(ph = "done")
=============================================================================
