------------------------------- MODULE RawKV -------------------------------
(* C11 - the raw key-value API as ONE ordered map (the P-spec), and the region-walking client *)
(* of rawkv/rawkv.go as an explicit multi-step algorithm over a mutable region layout and a   *)
(* per-region client cache (the I-spec).  MC_RawKV checks that every call of the I-spec, under *)
(* every layout, every stale cache and every split/merge injected between the lookup and the  *)
(* request or between two partial requests, returns what the P-spec returns.  Trace_RawKV      *)
(* judges recorded calls of the real rawkv.Client (over mocktikv) with the same operators.     *)
(*                                                                                             *)
(* Keys are 1..NKeys in byte order.  A bound 0 is the empty key: "from the beginning" as a     *)
(* start key, "unbounded" as an end key.  A value is a small integer, None = absent.           *)
EXTENDS Integers, Sequences, FiniteSets, FiniteSetsExt, SequencesExt
CONSTANT NKeys
None == -1
Keys == 1..NKeys
Asc(S) == SetToSortSeq(S, <)
Desc(S) == Reverse(Asc(S))
Take(q, n) == SubSeq(q, 1, IF n < Len(q) THEN n ELSE Len(q))
InRange(k, s, e) == k >= s /\ (e = 0 \/ k < e)          \* [s, e), e = 0 unbounded
InRev(k, s, e) == k < s /\ k >= e                       \* reverse scan range [e, s); s = 0 is documented as unsupported: empty
Live(m, S) == {k \in S : m[k] # None}
Pairs(m, q) == [i \in 1..Len(q) |-> <<q[i], m[q[i]]>>]
SetOfSeq(q) == {q[i] : i \in 1..Len(q)}

\* ---- P-spec: one ordered map -------------------------------------------------------------
PGet(m, k) == m[k]
PBatchGet(m, ks) == [i \in 1..Len(ks) |-> m[ks[i]]]
PPut(m, k, v) == [m EXCEPT ![k] = v]
PDelete(m, k) == [m EXCEPT ![k] = None]
\* a batch put is the puts in order: for a key named several times the last value wins
PBatchPut(m, ks, vs) ==
  [k \in Keys |-> IF k \in SetOfSeq(ks) THEN vs[Max({i \in 1..Len(ks) : ks[i] = k})] ELSE m[k]]
PBatchDelete(m, ks) == [k \in Keys |-> IF k \in SetOfSeq(ks) THEN None ELSE m[k]]
PDeleteRange(m, s, e) == [k \in Keys |-> IF InRange(k, s, e) THEN None ELSE m[k]]
PScanKeys(m, s, e, limit) == Take(Asc(Live(m, {k \in Keys : InRange(k, s, e)})), limit)
PRevKeys(m, s, e, limit) == Take(Desc(Live(m, {k \in Keys : InRev(k, s, e)})), limit)
PScan(m, s, e, limit) == Pairs(m, PScanKeys(m, s, e, limit))
PReverseScan(m, s, e, limit) == Pairs(m, PRevKeys(m, s, e, limit))
PCount(m, s, e) == Cardinality(Live(m, {k \in Keys : InRange(k, s, e)}))
PCas(m, k, prev, new) == [old |-> m[k], swapped |-> m[k] = prev, m |-> IF m[k] = prev THEN [m EXCEPT ![k] = new] ELSE m]

\* ---- regions --------------------------------------------------------------------------------
\* a layout is the set of split keys (a split key starts the region to its right); a region is
\* [lo |-> b, hi |-> b'] with lo = 0 "from the beginning" and hi = 0 "to the end"
Splits == 2..NKeys
RegionOf(L, k) == [lo |-> Max({b \in L : b <= k} \cup {0}),
                   hi |-> IF {b \in L : b > k} = {} THEN 0 ELSE Min({b \in L : b > k})]
\* the region holding the keys just below k (LocateEndKey); k = 0 cannot be located (caller never asks)
RegionEnding(L, k) == [lo |-> Max({b \in L : b < k} \cup {0}),
                       hi |-> IF {b \in L : b >= k} = {} THEN 0 ELSE Min({b \in L : b >= k})]
Current(L, r) == r = RegionOf(L, r.lo)
Holds(r, k) == k >= r.lo /\ (r.hi = 0 \/ k < r.hi)
HoldsEnd(r, k) == k > r.lo /\ (r.hi = 0 \/ k <= r.hi)
Overlap(a, b) == (b.hi = 0 \/ a.lo < b.hi) /\ (a.hi = 0 \/ b.lo < a.hi)
=============================================================================
