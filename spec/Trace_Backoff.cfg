SPECIFICATION TSpec
CONSTANT ExcludedLimit = 3000
CONSTRAINT HW
INVARIANTS WithinBudget ExcludedBounded Accounting
POSTCONDITION Accepted
CHECK_DEADLOCK FALSE
