------------------------- MODULE Trace_BatchStreams -------------------------
(* C18 - trace validation of the replay driver (harness/client/zz_verif_streams_test.go): every      *)
(* logged step is the named action of BatchStreams.tla (the repaired variant, FailOnStale = TRUE) and *)
(* the callers observed after it - idle, waiting, done with a response or an error, own answer - are   *)
(* the model's.  Snapshots taken right after "answer" and "break" race with the client's own reaction *)
(* (the following "deliver" / "recreate" line is taken after it) and are not compared.                 *)
EXTENDS BatchStreams, Sequences, Json
Trace == ndJsonDeserialize("trace.ndjson")
VARIABLE pos
tvars == <<vars, pos>>
Ev == Trace[pos]
Bad(rule, detail) == PrintT(<<"MISMATCH", pos, rule, detail>>)
Check(cond, rule, detail) == IF cond THEN TRUE ELSE Bad(rule, detail)
Observed(e) ==
  \A c \in Callers :
    LET g == e.got[c] IN
    /\ Check(g.kind # "twice", "a call returned twice", <<c, g>>)
    /\ Check(~(state'[c] = "done" /\ g.state = "waiting"), "a call that must have come back (answered, cancelled, or pending on a stream that broke) did not return", <<e.a, e.s, c, g>>)
    /\ Check(~(state'[c] = "waiting" /\ g.state = "done"), "a call came back although nothing answered, cancelled or broke it", <<e.a, e.s, c, g>>)
    /\ Check(state'[c] # "done" \/ g.state # "done" \/ g.kind = result'[c].kind, "a call came back with the wrong kind of result", <<e.a, e.s, c, result'[c].kind, g>>)
    /\ Check(g.kind # "resp" \/ g.own, "a call received another call's response", <<c, g>>)
TInit == Init /\ pos = 1
Step(e) ==
  CASE e.a = "submit" -> Submit(e.c, e.s)
    [] e.a = "answer" -> \E x \in table : x.caller = e.c /\ x.id = myId[e.c] /\ ServerAnswer(x)
    [] e.a = "deliver" -> \E w \in wire : w.owner = e.c /\ Deliver(w)
    [] e.a = "break" -> Break({e.s})
    [] e.a = "recreate" -> Recreate(e.s)
    [] e.a = "leave" -> Leave(e.c)
    [] e.a = "again" -> Again(e.c)
    [] OTHER -> FALSE
TNext ==
  /\ pos <= Len(Trace) /\ pos' = pos + 1
  /\ IF Ev.ev = "reset"
     THEN /\ state' = [c \in Callers |-> "idle"] /\ myId' = [c \in Callers |-> 0] /\ result' = [c \in Callers |-> R("none", 0)]
          /\ table' = {} /\ nextId' = 1 /\ cepoch' = 0 /\ lepoch' = [s \in Streams |-> 0]
          /\ gen' = [s \in Streams |-> 1] /\ broken' = [s \in Streams |-> FALSE] /\ wire' = {}
          /\ opened' = [s \in Streams |-> s = "direct"]
     ELSE /\ Step(Ev)
          /\ Check(Ev.note = "", "the driver could not perform the step", <<Ev.a, Ev.c, Ev.s, Ev.note>>)
          /\ (Ev.a \notin {"answer", "break"} => Observed(Ev))
TSpec == TInit /\ [][TNext]_tvars
Done == TLCGet("stats").diameter - 1 = Len(Trace) \/ PrintT(<<"INCOMPLETE", TLCGet("stats").diameter>>)
=============================================================================
