----------------------------- MODULE MC_Backoff -----------------------------
(* Bounded exhaustive exploration of Backoff.tla: op sequences of length <= MaxOps over a   *)
(* reduced kind set, sleeps at the window ends (lo, hi) and at the per-call cut.            *)
EXTENDS Backoff
CONSTANTS MaxOps, MaxBos
VARIABLES nops, lastres, sinceFork   \* sinceFork[f] = sleep added on f since it was forked / cloned
mcvars == <<vars, nops, lastres, sinceFork>>
MKinds == {"regionMiss", "tikvServerBusy", "tikvDiskFull", "customFull"}
SleepChoices(b, k, m) == LET w == Window(b, k) IN {w.lo, w.hi, (w.lo + w.hi) \div 2} \cup (IF m >= 0 THEN {m} ELSE {})
MCInit == Init /\ nops = 0 /\ lastres = "none" /\ sinceFork = <<>>
Step(A) == A /\ nops' = nops + 1
MCNext ==
  /\ nops < MaxOps
  /\ \/ /\ NextId <= MaxBos /\ \E max \in {0, 600, 3000}, w \in {1, 2} : Step(New(max, w, 10))
        /\ lastres' = "new" /\ sinceFork' = Append(sinceFork, 0)
     \/ \E b \in Ids, k \in MKinds, m \in {-1, 5}, res \in {"nil", "killed", "passed", "ErrRegionUnavailable", "ErrTiKVDiskFull", "ErrCustomFull"} :
          \E s \in SleepChoices(b, k, m) \cup {0} :
            /\ Step(Backoff(b, k, m, s, res)) /\ lastres' = res
            /\ sinceFork' = [sinceFork EXCEPT ![b] = @ + (bos'[b].total - bos[b].total)]
     \/ \E b \in Ids : NextId <= MaxBos /\ Step(Clone(b)) /\ lastres' = "clone" /\ sinceFork' = Append(sinceFork, 0)
     \/ \E b \in Ids : NextId <= MaxBos /\ Step(Fork(b)) /\ lastres' = "fork" /\ sinceFork' = Append(sinceFork, 0)
     \/ \E b \in Ids, f \in Ids : b # f /\ Step(Merge(b, f)) /\ lastres' = "merge" /\ UNCHANGED sinceFork
     \/ \E b \in Ids : Step(Reset(b)) /\ lastres' = "reset" /\ UNCHANGED sinceFork
     \/ \E b \in Ids : Step(ResetMaxSleep(b, 900)) /\ lastres' = "reset" /\ UNCHANGED sinceFork
     \/ \E b \in Ids : Step(Cancel(b)) /\ lastres' = "cancel" /\ UNCHANGED sinceFork
     \/ \E b \in Ids : Step(Kill(b)) /\ lastres' = "kill" /\ UNCHANGED sinceFork
MCSpec == MCInit /\ [][MCNext]_mcvars

\* a fork / clone starts from its source's accounting
ForkStartsFromParent ==
  [][\A b \in Ids : (Fork(b) \/ Clone(b)) =>
        LET n == bos'[NextId] IN n.total = bos[b].total /\ n.excluded = bos[b].excluded
                                 /\ n.sleepMs = bos[b].sleepMs /\ n.times = bos[b].times
                                 /\ n.errorsNum = bos[b].errorsNum /\ n.maxSleep = bos[b].maxSleep]_mcvars
\* merging a direct fork that the ancestor did not out-run neither loses nor double counts
MergeExact ==
  [][\A b \in Ids, f \in Ids :
        (b # f /\ Merge(b, f) /\ IsAncestor(b, f) /\ bos[f].parent = b /\ sinceFork[b] = 0 /\ bos[b].total = bos[f].total - sinceFork[f])
          => bos'[b].total = bos[b].total + sinceFork[f]]_mcvars
\* a cancelled context or a spent budget stops the back-off at once: no sleep is added
StopsAtOnce == [][\A b \in Ids : (lastres' \in {"passed"} \/ (lastres' \notin {"nil", "killed", "new", "clone", "fork", "merge", "reset", "cancel", "kill"}))
                      => bos' = bos]_mcvars
=============================================================================
