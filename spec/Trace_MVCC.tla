----------------------------- MODULE Trace_MVCC -----------------------------
(* Validation of the mock TiKV (mocktikv.MVCCLevelDB) against MVCC.tla (C12).  Every line   *)
(* is one store command with its answer and the store's full projection after it.  The     *)
(* reference is deterministic: answer and next state must equal MVCC.tla's; a disagreement  *)
(* is printed and the model continues from the logged projection (B3), so later commands    *)
(* are still judged against what the store really holds.  The direct clauses of the         *)
(* property (never both committed and rolled back, scan = gets, reverse = mirror) are       *)
(* evaluated on every logged projection as well.                                            *)
EXTENDS MVCCCmd, Json
Trace == ndJsonDeserialize("trace.ndjson")
VARIABLES pos, st
Ev == Trace[pos]
FromProj(p, wf) == [lock |-> [k \in Key |-> p.lock[k]], writes |-> [k \in Key |-> SetOf(p.writes[k])], wf |-> wf]
SameProj(s, p) == \A k \in Key : s.lock[k] = p.lock[k] /\ s.writes[k] = SetOf(p.writes[k])
\* timestamps at which the read clauses are evaluated on every logged projection
TsOfInterest(s) == {MaxTs} \cup UNION {{w.commit, w.commit - 1} : w \in UNION {s.writes[k] : k \in Key}}
                   \cup {s.lock[k].ts : k \in Key}
Direct(s) == NeverBoth(s) /\ \A ts \in TsOfInterest(s) : ScanEqualsGets(s, ts)
Init == pos = 1 /\ st = EmptyStore
Next ==
  /\ pos <= Len(Trace) /\ pos' = pos + 1
  /\ IF Ev.ev = "reset" THEN st' = EmptyStore
     ELSE IF Ev.ev = "sync" THEN st' = FromProj(Ev.proj, {})
     ELSE LET r == Apply(st, Ev.cmd)
              logged == FromProj(Ev.proj, r.st.wf)
          IN /\ IF r.resp = Ev.resp /\ SameProj(r.st, Ev.proj) THEN TRUE
                ELSE PrintT(<<"MISMATCH", pos, Ev.cmd.c, r.resp, [k \in Key |-> <<r.st.lock[k], r.st.writes[k]>>]>>)
             /\ IF Direct(logged) THEN TRUE ELSE PrintT(<<"MISMATCH", pos, "DIRECT", NeverBoth(logged), 0>>)
             /\ st' = logged
Spec == Init /\ [][Next]_<<pos, st>>
Done == TLCGet("stats").diameter - 1 = Len(Trace) \/ PrintT(<<"INCOMPLETE", TLCGet("stats").diameter>>)
=============================================================================
