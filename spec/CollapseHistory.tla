-------------------------- MODULE CollapseHistory --------------------------
(* C18 (anchor client_collapse.go) - property-level monitor for request collapsing.  The trace holds, *)
(* per scenario, one line per call through NewReqCollapse and one line per request that reached the   *)
(* inner client, both with the readings of one logical clock at their start (t0) and end (t1); the     *)
(* inner client stamps every answer with the id of the inner request it answers.  The rules are        *)
(* evaluated when the scenario ends (an inner request may be logged after the call it served):         *)
(*  - every call returns exactly once, within its time-out (plus slack);                               *)
(*  - a response answers an inner request of the caller's own kind, region, start version, commit      *)
(*    version and async flag that succeeded and was in flight while - or ended just before - the caller was waiting;            *)
(*  - a request that must not be collapsed (resolve-lock-lite, batch resolve, any other command) has   *)
(*    its inner request to itself;                                                                     *)
(*  - collapsible inner requests of one key are never in flight together, and carry the short read     *)
(*    time-out instead of the first caller's.                                                          *)
(* Collapse.tla is the I-spec (model-checked by MC_Collapse).                                          *)
EXTENDS Integers, Sequences, FiniteSets, TLC, Json
Trace == ndJsonDeserialize("trace.ndjson")
VARIABLES pos, calls, inners
tvars == <<pos, calls, inners>>
Ev == Trace[pos]
Bad(rule, detail) == PrintT(<<"MISMATCH", pos, rule, detail>>)
Check(cond, rule, detail) == IF cond THEN TRUE ELSE Bad(rule, detail)
Slack == 1500
SameReq(c, i) == /\ i.kind = c.kind /\ i.region = c.region
                 /\ (c.kind \in {"resolve", "lite"} => i.start = c.start /\ i.commit = c.commit /\ i.isasync = c.isasync)
\* singleflight keeps a flight joinable for a moment after its function has returned (until it has taken its lock and
\* removed the key), so the inner request may have ended shortly before the caller arrived - but it started before the
\* caller returned, and it did not end long (wall clock, 1 s) before the caller called
Overlaps(c, i) == i.t0 < c.t1 /\ i.w1 + 1000 >= c.w0
CKey(i) == <<i.region, i.start, i.isasync>>
Judge ==
  /\ \A c \in calls :
       /\ Check(c.returns = 1 /\ c.outcome # "never", "a call did not return exactly once", c)
       /\ Check(c.latency_ms <= c.timeout_ms + Slack, "a call blocked beyond its time-out", c)
       /\ c.outcome = "resp" =>
            /\ Check(\E i \in inners : i.id = c.inner /\ i.ok /\ SameReq(c, i), "a call received the answer to another request", <<c, {i \in inners : i.id = c.inner}>>)
            /\ Check(\E i \in inners : i.id = c.inner /\ Overlaps(c, i), "a call received the answer of a request that was not in flight around the time it waited", <<c, {i \in inners : i.id = c.inner}>>)
            /\ c.kind # "resolve" => Check(\A d \in calls : (d # c /\ d.outcome = "resp") => d.inner # c.inner, "a request that must not be collapsed shared its inner request", c)
  /\ \A i, j \in inners :
       (i # j /\ i.kind = "resolve" /\ j.kind = "resolve" /\ CKey(i) = CKey(j)) =>
          Check(i.t1 < j.t0 \/ j.t1 < i.t0, "two inner requests of one collapse key were in flight together", <<i, j>>)
  /\ \A i \in inners : i.kind = "resolve" => Check(i.timeout_ms = 30000, "a collapsed inner request does not carry the short read time-out", i)
  \* every call that is not collapsible reaches the inner client itself (when it got that far): as many inner requests as calls that were answered
  /\ \A c \in calls : (c.kind # "resolve" /\ c.outcome = "resp") => Check(\E i \in inners : i.id = c.inner /\ i.kind = c.kind, "a pass-through call was not passed through", c)
Init == pos = 1 /\ calls = {} /\ inners = {}
Next ==
  /\ pos <= Len(Trace) /\ pos' = pos + 1
  /\ CASE Ev.ev = "reset" -> calls' = {} /\ inners' = {}
       [] Ev.ev = "call" -> calls' = calls \cup {Ev} /\ UNCHANGED inners
       [] Ev.ev = "inner" -> inners' = inners \cup {Ev} /\ UNCHANGED calls
       [] Ev.ev = "end" -> Judge /\ UNCHANGED <<calls, inners>>
       [] OTHER -> UNCHANGED <<calls, inners>>
Spec == Init /\ [][Next]_tvars
Done == TLCGet("stats").diameter - 1 = Len(Trace) \/ PrintT(<<"INCOMPLETE", TLCGet("stats").diameter>>)
=============================================================================
