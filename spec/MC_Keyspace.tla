---------------------------- MODULE MC_Keyspace ----------------------------
EXTENDS Keyspace, TLC
VARIABLE x
Init == x = 0
Next0 == UNCHANGED x
Spec == Init /\ [][Next0]_x
McBytes == {0, 1, 255}
McIds == {<<0, 0, 0>>, <<0, 0, 1>>, <<0, 1, 0>>, <<255, 255, 254>>}
A1 == RoundTrip
A2 == Inside
A3 == Disjoint
A4 == OrderPreserved
A5 == RangeImage
=============================================================================
