SPECIFICATION Spec
CONSTANTS Callers = {1, 2} Streams = {"direct", "fwd"} MaxGen = 3 MaxId = 4 FailOnStale = TRUE
INVARIANTS OwnResponse IdsUnique NoOrphans NoDeadPending EpochOK
CONSTRAINT Bound
CHECK_DEADLOCK FALSE
