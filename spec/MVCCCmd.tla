------------------------------ MODULE MVCCCmd ------------------------------
(* Store commands as records (the shape the harness logs and the generator emits) and their *)
(* interpretation by MVCC.tla.  Shared by Trace_MVCC (code -> spec) and MC_MVCC (spec -> code). *)
EXTENDS MVCC
SetOf(s) == {s[i] : i \in 1..Len(s)}
InfoFn(infos) == [s \in {infos[i].start : i \in 1..Len(infos)} |-> (CHOOSE x \in SetOf(infos) : x.start = s).commit]
PessMuts(ms) == [i \in 1..Len(ms) |-> [k |-> ms[i].k, notexist |-> ms[i].notexist]]
Apply(s, c) ==
  CASE c.c = "Get" -> Res(Get(s, c.k, c.ts, SetOf(c.resolved)), s)
    [] c.c = "BatchGet" -> Res([pairs |-> BatchGet(s, c.ks, c.ts, SetOf(c.resolved))], s)
    [] c.c = "Scan" -> Res([pairs |-> Scan(s, c.lo, c.hi, c.limit, c.ts, SetOf(c.resolved))], s)
    [] c.c = "ReverseScan" -> Res([pairs |-> ReverseScan(s, c.lo, c.hi, c.limit, c.ts, SetOf(c.resolved))], s)
    [] c.c = "Prewrite" -> Prewrite(s, c.muts, [start |-> c.start, primary |-> c.primary, ttl |-> c.ttl, minc |-> c.minc, fts |-> c.fts])
    [] c.c = "PessimisticLock" -> PessimisticLock(s, PessMuts(c.muts), [start |-> c.start, fts |-> c.fts, primary |-> c.primary, ttl |-> c.ttl,
                                    minc |-> c.minc, retvals |-> c.retvals, checkex |-> c.checkex, onlyif |-> c.onlyif], c.nowait)
    [] c.c = "PessimisticRollback" -> PessimisticRollback(s, c.ks, c.start, c.fts)
    [] c.c = "Commit" -> Commit(s, c.ks, c.start, c.commit)
    [] c.c = "Rollback" -> Rollback(s, c.ks, c.start)
    [] c.c = "Cleanup" -> Cleanup(s, c.k, c.start, c.current)
    [] c.c = "CheckTxnStatus" -> CheckTxnStatus(s, c.pk, c.lts, c.caller, c.current, c.rb, c.rp)
    [] c.c = "TxnHeartBeat" -> TxnHeartBeat(s, c.k, c.start, c.advise)
    [] c.c = "ResolveLock" -> ResolveLock(s, c.lo, c.hi, c.start, c.commit)
    [] c.c = "BatchResolveLock" -> BatchResolveLock(s, c.lo, c.hi, InfoFn(c.infos))
    [] c.c = "ScanLock" -> Res([err |-> "none", locks |-> ScanLock(s, c.lo, c.hi, c.maxts)], s)
    [] c.c = "GC" -> GC(s, c.lo, c.hi, c.sp)

=============================================================================
