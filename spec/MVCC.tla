-------------------------------- MODULE MVCC --------------------------------
(* Reference Percolator MVCC store (C12; the store half of C01-C06, C14, C16).             *)
(* State: per key one lock (or none) and a set of write records.  Every store command is   *)
(* an operator  Cmd(st, args) -> [resp, st']  over an explicit state record, so the same   *)
(* definitions serve the model checker (MC_MVCC), the trace validator of the mock store    *)
(* (Trace_MVCC) and the client-level specifications that embed the store.                  *)
(*                                                                                         *)
(* Written from TiKV's semantics.  Where the property pins the behaviour the reference     *)
(* follows the property:                                                                   *)
(*   R1 prewrite over the transaction's own pessimistic lock converts it without a new     *)
(*      write-conflict check;                                                              *)
(*   R2 a pessimistic-lock request over the transaction's own prewrite lock is refused;    *)
(*   R3 committing (commit / resolve / batch resolve) a leftover pessimistic lock removes  *)
(*      it and writes nothing;                                                             *)
(*   R4 every kind of rollback (batch rollback, cleanup, status check, resolve) leaves a   *)
(*      rollback marker;                                                                   *)
(*   R5 a command repeated over its own effect answers the same and changes nothing.       *)
(* Where it does not (order in which several applicable errors are reported, existence     *)
(* check before conflict check for optimistic inserts, lock-type answer for a foreign lock *)
(* met by a pessimistic prewrite) the reference is aligned with the mock and says so.      *)
(* Timestamps are the compact exact image p*1000+l of TSO timestamps (physical p, logical  *)
(* l < 1000); MaxTs stands for 2^64-1.                                                     *)
EXTENDS Integers, Sequences, FiniteSets, TLC

CONSTANT Key                      \* finite set of integers; key order = integer order
MaxTs == 2147483647
Phys(ts) == ts \div 1000
NoLock == [ts |-> 0, primary |-> 0, kind |-> "None", val |-> 0, ttl |-> 0, fts |-> 0, minc |-> 0]
IsLocked(l) == l.ts # 0
Max2(a, b) == IF a > b THEN a ELSE b

EmptyStore == [lock |-> [k \in Key |-> NoLock], writes |-> [k \in Key |-> {}], wf |-> {}]

(********************************* reading ***********************************)
LatestOf(S) == CHOOSE w \in S : \A x \in S : x.commit <= w.commit
DataAt(st, k, ts) == {w \in st.writes[k] : w.type \in {"Put", "Del"} /\ w.commit <= ts}
VisibleVal(st, k, ts) == LET S == DataAt(st, k, ts)
                         IN IF S = {} THEN 0 ELSE IF LatestOf(S).type = "Put" THEN LatestOf(S).val ELSE 0
VisibleCommit(st, k, ts) == LET S == DataAt(st, k, ts)
                            IN IF S = {} \/ LatestOf(S).type # "Put" THEN 0 ELSE LatestOf(S).commit
OwnRecs(st, k, start) == {w \in st.writes[k] : w.start = start}
Committed(st, k, start) == \E w \in OwnRecs(st, k, start) : w.type # "Rollback"
RolledBack(st, k, start) == \E w \in OwnRecs(st, k, start) : w.type = "Rollback"
CommitTsOf(st, k, start) == (CHOOSE w \in OwnRecs(st, k, start) : w.type # "Rollback").commit

\* snapshot-isolation read of one key
ReadKey(st, k, ts, resolved) ==
  LET l == st.lock[k]
      relevant == IsLocked(l) /\ l.ts <= ts /\ l.kind \notin {"Lock", "Pessimistic"}
  IN IF ~relevant THEN [err |-> "none", lts |-> 0, val |-> VisibleVal(st, k, ts)]
     ELSE IF ts = MaxTs /\ l.primary = k THEN [err |-> "none", lts |-> 0, val |-> VisibleVal(st, k, l.ts - 1)]
     ELSE IF l.ts \in resolved THEN [err |-> "none", lts |-> 0, val |-> VisibleVal(st, k, ts)]
     ELSE [err |-> "locked", lts |-> l.ts, val |-> 0]

InRange(k, lo, hi) == (lo = 0 \/ k >= lo) /\ (hi = 0 \/ k < hi)
KeysIn(lo, hi) == {k \in Key : InRange(k, lo, hi)}
RECURSIVE SortedAsc(_)
SortedAsc(S) == IF S = {} THEN <<>> ELSE LET m == CHOOSE x \in S : \A y \in S : x <= y IN <<m>> \o SortedAsc(S \ {m})
RECURSIVE SortedDesc(_)
SortedDesc(S) == IF S = {} THEN <<>> ELSE LET m == CHOOSE x \in S : \A y \in S : x >= y IN <<m>> \o SortedDesc(S \ {m})
FirstN(s, n) == IF Len(s) <= n THEN s ELSE SubSeq(s, 1, n)

PairOf(st, k, ts, resolved) == LET r == ReadKey(st, k, ts, resolved) IN [k |-> k, err |-> r.err, lts |-> r.lts, val |-> r.val]
Reports(st, k, ts, resolved) == LET r == ReadKey(st, k, ts, resolved) IN r.err # "none" \/ r.val # 0
Get(st, k, ts, resolved) == ReadKey(st, k, ts, resolved)
\* pairs only for keys that have a value or an error, in request order
RECURSIVE BatchGetSeq(_, _, _, _)
BatchGetSeq(st, ks, ts, resolved) ==
  IF ks = <<>> THEN <<>>
  ELSE (IF Reports(st, Head(ks), ts, resolved) THEN <<PairOf(st, Head(ks), ts, resolved)>> ELSE <<>>)
       \o BatchGetSeq(st, Tail(ks), ts, resolved)
BatchGet(st, ks, ts, resolved) == BatchGetSeq(st, ks, ts, resolved)
RECURSIVE PairsOver(_, _, _, _)
PairsOver(st, ks, ts, resolved) == IF ks = <<>> THEN <<>> ELSE <<PairOf(st, Head(ks), ts, resolved)>> \o PairsOver(st, Tail(ks), ts, resolved)
Scan(st, lo, hi, limit, ts, resolved) ==
  FirstN(PairsOver(st, SortedAsc({k \in KeysIn(lo, hi) : Reports(st, k, ts, resolved)}), ts, resolved), limit)
ReverseScan(st, lo, hi, limit, ts, resolved) ==
  FirstN(PairsOver(st, SortedDesc({k \in KeysIn(lo, hi) : Reports(st, k, ts, resolved)}), ts, resolved), limit)

(***************************** per-key write effects *************************)
\* an effect: error (kind, ts payload), the key's new lock and the write records to add
Eff(err, ets, l, add) == [err |-> err, ets |-> ets, lock |-> l, add |-> add]
NoEff(st, k) == Eff("none", 0, st.lock[k], {})
RollbackRec(start) == [type |-> "Rollback", start |-> start, commit |-> start, val |-> 0]

\* newest write record of any type (conflict checks look at it whatever its type)
NewestRec(st, k) == LatestOf(st.writes[k])
\* write-conflict / already-rolled-back check used by prewrite (ref = start) and pessimistic lock (ref = fts)
ConflictErr(st, k, start, ref) ==
  IF st.writes[k] = {} THEN "none"
  ELSE IF NewestRec(st, k).commit > ref THEN "conflict"
  ELSE IF RolledBack(st, k, start) THEN "rolledback"
  ELSE "none"
ConflictTs(st, k, ref) == IF st.writes[k] # {} /\ NewestRec(st, k).commit > ref THEN NewestRec(st, k).commit ELSE 0

\* m = [op, k, val, act]   op \in {"Put","Del","Lock","Insert","CheckNotExists"}
\* act \in {"skip","pess","constraint"} (pessimistic action);  rq = [start, primary, ttl, minc, fts]
PrewriteKey(st, m, rq) ==
  LET k == m.k
      l == st.lock[k]
      own == IsLocked(l) /\ l.ts = rq.start
      newlock(ttl, minc) == [ts |-> rq.start, primary |-> rq.primary,
                             kind |-> (IF m.op = "Insert" THEN "Put" ELSE m.op),
                             val |-> (IF m.op \in {"Put", "Insert"} THEN m.val ELSE 0),
                             ttl |-> ttl, fts |-> 0, minc |-> (IF rq.primary = k THEN minc ELSE 0)]
      rd == ReadKey(st, k, rq.start, {rq.start})
  IN \* optimistic existence check first (aligned with the mock; the transaction's own lock never blocks it)
     IF m.op \in {"Insert", "CheckNotExists"} /\ rq.fts = 0 /\ rd.err = "locked" THEN Eff("locked", rd.lts, l, {})
     ELSE IF m.op \in {"Insert", "CheckNotExists"} /\ rq.fts = 0 /\ rd.val # 0 THEN Eff("exists", 0, l, {})
     ELSE IF m.op = "CheckNotExists" THEN NoEff(st, k)
     ELSE IF own /\ l.kind # "Pessimistic" THEN NoEff(st, k)                              \* R5: already prewritten
     ELSE IF IsLocked(l) /\ ~own THEN Eff("locked", l.ts, l, {})
     ELSE IF own                                                                           \* own pessimistic lock: R1
          THEN Eff("none", 0, newlock(Max2(rq.ttl, l.ttl), Max2(rq.minc, l.minc)), {})
     ELSE IF m.act = "pess" THEN Eff("abort", 0, l, {})                                    \* pessimistic lock lost
     ELSE IF ConflictErr(st, k, rq.start, rq.start) # "none"
          THEN Eff(ConflictErr(st, k, rq.start, rq.start), ConflictTs(st, k, rq.start), l, {})
     ELSE Eff("none", 0, newlock(rq.ttl, rq.minc), {})

\* rq = [start, fts, primary, ttl, minc, retvals, checkex, onlyif];  m = [k, notexist]
\* existence for "should not exist" looks through lock and rollback records (TiKV)
PessLockKey(st, m, rq) ==
  LET k == m.k
      l == st.lock[k]
      own == IsLocked(l) /\ l.ts = rq.start
      val == VisibleVal(st, k, MaxTs)
      cerr == ConflictErr(st, k, rq.start, rq.fts)
      newl == [ts |-> rq.start, primary |-> rq.primary, kind |-> "Pessimistic", val |-> 0, ttl |-> rq.ttl,
               fts |-> rq.fts, minc |-> rq.minc]
  IN IF rq.onlyif /\ ~rq.retvals THEN Eff("badrequest", 0, l, {})
     ELSE IF IsLocked(l) /\ ~own THEN Eff("locked", l.ts, l, {})
     ELSE IF own /\ l.kind # "Pessimistic" THEN Eff("locktype", 0, l, {})                  \* R2
     ELSE IF cerr # "none" THEN Eff(cerr, ConflictTs(st, k, rq.fts), l, {})
     ELSE IF m.notexist /\ val # 0 THEN Eff("exists", 0, l, {})
     ELSE IF rq.onlyif /\ val = 0 THEN NoEff(st, k)
     ELSE IF own /\ l.fts >= rq.fts THEN NoEff(st, k)
     ELSE Eff("none", 0, newl, {})

PessRollbackKey(st, k, start, fts) ==
  LET l == st.lock[k]
  IN IF IsLocked(l) /\ l.kind = "Pessimistic" /\ l.ts = start /\ l.fts <= fts THEN Eff("none", 0, NoLock, {})
     ELSE NoEff(st, k)

CommitRecOf(l, start, commit) == [type |-> l.kind, start |-> start, commit |-> commit, val |-> l.val]
\* R3: a pessimistic lock is simply released
ReleaseCommitted(l, start, commit) == IF l.kind = "Pessimistic" THEN {} ELSE {CommitRecOf(l, start, commit)}
CommitKey(st, k, start, commit) ==
  LET l == st.lock[k]
  IN IF IsLocked(l) /\ l.ts = start
     THEN IF l.minc > commit THEN Eff("expired", l.minc, l, {})
          ELSE Eff("none", 0, NoLock, ReleaseCommitted(l, start, commit))
     ELSE IF Committed(st, k, start) THEN NoEff(st, k)
     ELSE Eff("txnnotfound", 0, l, {})
RollbackKey(st, k, start) ==
  LET l == st.lock[k]
  IN IF IsLocked(l) /\ l.ts = start THEN Eff("none", 0, NoLock, {RollbackRec(start)})
     ELSE IF Committed(st, k, start) THEN Eff("committed", CommitTsOf(st, k, start), l, {})
     ELSE IF RolledBack(st, k, start) THEN NoEff(st, k)
     ELSE Eff("none", 0, l, {RollbackRec(start)})                                          \* R4, foreign lock untouched
Expired(l, current) == Phys(l.ts) + l.ttl < Phys(current)
CleanupKey(st, k, start, current) ==
  LET l == st.lock[k]
  IN IF IsLocked(l) /\ l.ts = start
     THEN IF current = 0 \/ Expired(l, current) THEN Eff("none", 0, NoLock, {RollbackRec(start)})
          ELSE Eff("locked", l.ts, l, {})
     ELSE IF Committed(st, k, start) THEN Eff("committed", CommitTsOf(st, k, start), l, {})
     ELSE IF RolledBack(st, k, start) THEN NoEff(st, k)
     ELSE Eff("none", 0, l, {RollbackRec(start)})                                          \* R4
ResolveKey(st, k, start, commit) ==
  LET l == st.lock[k]
  IN IF IsLocked(l) /\ l.ts = start
     THEN IF commit > 0 THEN Eff("none", 0, NoLock, ReleaseCommitted(l, start, commit))
          ELSE Eff("none", 0, NoLock, {RollbackRec(start)})
     ELSE NoEff(st, k)

(****************************** applying effects ******************************)
\* effs: function from a set of keys to effects, all computed on st; applied together (one write batch)
ApplyAll(st, effs) ==
  [st EXCEPT !.lock = [k \in Key |-> IF k \in DOMAIN effs THEN effs[k].lock ELSE st.lock[k]],
             !.writes = [k \in Key |-> IF k \in DOMAIN effs THEN st.writes[k] \cup effs[k].add ELSE st.writes[k]]]
AnyErr(effs) == \E k \in DOMAIN effs : effs[k].err # "none"
ErrRec(k, e) == [err |-> e.err, ets |-> e.ets]
RECURSIVE ErrSeq(_, _)
ErrSeq(ks, effs) == IF ks = <<>> THEN <<>>
                    ELSE (IF effs[Head(ks)].err # "none" THEN <<ErrRec(Head(ks), effs[Head(ks)])>> ELSE <<>>) \o ErrSeq(Tail(ks), effs)
SeqKeys(ms) == [i \in 1..Len(ms) |-> ms[i].k]
ToSet(s) == {s[i] : i \in 1..Len(s)}
Res(resp, st) == [resp |-> resp, st |-> st]

\* Prewrite: all mutations judged on the state before the request; nothing is written if any failed
Prewrite(st, muts, rq) ==
  LET ks == SeqKeys(muts)
      effs == [k \in ToSet(ks) |-> PrewriteKey(st, muts[CHOOSE i \in 1..Len(muts) : muts[i].k = k], rq)]
  IN Res([errs |-> ErrSeq(ks, effs)], IF AnyErr(effs) THEN st ELSE ApplyAll(st, effs))

\* wait-for graph of the mock's deadlock detector: a foreign lock met by a pessimistic lock request registers
\* an edge unless it would close a cycle (then the request fails with a deadlock error)
RECURSIVE Reach(_, _, _)
Reach(wf, from, seen) == LET nxt == {e[2] : e \in {x \in wf : x[1] = from}} \ seen
                         IN nxt \cup UNION {Reach(wf, n, seen \cup nxt) : n \in nxt}
Deadlocks(wf, src, tgt) == src = tgt \/ src \in Reach(wf, tgt, {tgt})
\* muts: sequence of [k, notexist]; with nowait the request stops at the first foreign lock
RECURSIVE PessFold(_, _, _, _, _, _)
PessFold(st, wf, muts, rq, nowait, acc) ==
  IF muts = <<>> THEN [wf |-> wf, effs |-> acc]
  ELSE LET m == Head(muts)
           e0 == PessLockKey(st, m, rq)
           dl == e0.err = "locked" /\ Deadlocks(wf, rq.start, e0.ets)
           e == IF dl THEN Eff("deadlock", e0.ets, e0.lock, {}) ELSE e0
           wf2 == IF e0.err = "locked" /\ ~dl THEN wf \cup {<<rq.start, e0.ets>>} ELSE wf
       IN IF nowait /\ e0.err = "locked" /\ ~dl THEN [wf |-> wf2, effs |-> Append(acc, [k |-> m.k, e |-> e])]
          ELSE PessFold(st, wf2, Tail(muts), rq, nowait, Append(acc, [k |-> m.k, e |-> e]))
PessimisticLock(st, muts, rq, nowait) ==
  LET f == PessFold(st, st.wf, muts, rq, nowait, <<>>)
      effs == [k \in {f.effs[i].k : i \in 1..Len(f.effs)} |-> (CHOOSE x \in ToSet(f.effs) : x.k = k).e]
      ks == [i \in 1..Len(f.effs) |-> f.effs[i].k]
      st1 == [st EXCEPT !.wf = f.wf]
      vals == [i \in 1..Len(muts) |-> VisibleVal(st, muts[i].k, MaxTs)]
      flags == [i \in 1..Len(muts) |-> IF vals[i] # 0 THEN -1 ELSE 0]
  IN IF AnyErr(effs) THEN Res([errs |-> ErrSeq(ks, effs), vals |-> <<>>], st1)
     ELSE Res([errs |-> <<>>, vals |-> IF rq.retvals THEN vals ELSE IF rq.checkex THEN flags ELSE <<>>], ApplyAll(st1, effs))

PessimisticRollback(st, ks, start, fts) ==
  Res([errs |-> <<>>], ApplyAll(st, [k \in ToSet(ks) |-> PessRollbackKey(st, k, start, fts)]))

\* Commit / Rollback: keys in order, the first failing key ends the request and nothing is written
FirstErrIdx(ks, effs) == IF \E i \in 1..Len(ks) : effs[ks[i]].err # "none"
                         THEN CHOOSE i \in 1..Len(ks) : effs[ks[i]].err # "none" /\ \A j \in 1..(i - 1) : effs[ks[j]].err = "none"
                         ELSE 0
CleanWf(st, start) == [st EXCEPT !.wf = {e \in st.wf : e[1] # start}]
Commit(st, ks, start, commit) ==
  LET effs == [k \in ToSet(ks) |-> CommitKey(st, k, start, commit)]
      i == FirstErrIdx(ks, effs)
  IN IF i # 0 THEN Res([err |-> effs[ks[i]].err, ets |-> effs[ks[i]].ets], CleanWf(st, start))
     ELSE Res([err |-> "none", ets |-> 0], CleanWf(ApplyAll(st, effs), start))
Rollback(st, ks, start) ==
  LET effs == [k \in ToSet(ks) |-> RollbackKey(st, k, start)]
      i == FirstErrIdx(ks, effs)
  IN IF i # 0 THEN Res([err |-> effs[ks[i]].err, ets |-> effs[ks[i]].ets], CleanWf(st, start))
     ELSE Res([err |-> "none", ets |-> 0], CleanWf(ApplyAll(st, effs), start))
Cleanup(st, k, start, current) ==
  LET e == CleanupKey(st, k, start, current)
  IN Res([err |-> e.err, ets |-> e.ets], CleanWf(IF e.err = "none" THEN ApplyAll(st, [x \in {k} |-> e]) ELSE st, start))

\* status check on the primary: [ttl, commit, action, err]
CheckTxnStatus(st, pk, lts, caller, current, rbIfNotExist, resolvingPess) ==
  LET l == st.lock[pk]
      R(ttl, commit, action, err, st2) == Res([ttl |-> ttl, commit |-> commit, action |-> action, err |-> err], st2)
      setLock(nl, add) == ApplyAll(st, [x \in {pk} |-> Eff("none", 0, nl, add)])
  IN IF IsLocked(l) /\ l.ts = lts
     THEN IF Expired(l, current)
          THEN IF resolvingPess /\ l.kind = "Pessimistic"
               THEN R(0, 0, "TTLExpirePessimisticRollback", "none", setLock(NoLock, {}))
               ELSE R(0, 0, "TTLExpireRollback", "none", setLock(NoLock, {RollbackRec(lts)}))
          ELSE IF caller = MaxTs THEN R(l.ttl, 0, "MinCommitTSPushed", "none", st)
          ELSE IF l.minc > 0
               THEN IF l.minc < caller + 1
                    THEN R(l.ttl, 0, "MinCommitTSPushed", "none",
                           setLock([l EXCEPT !.minc = Max2(caller + 1, current)], {}))
                    ELSE R(l.ttl, 0, "MinCommitTSPushed", "none", st)
               ELSE R(l.ttl, 0, "NoAction", "none", st)
     ELSE IF Committed(st, pk, lts) THEN R(0, CommitTsOf(st, pk, lts), "NoAction", "none", st)
     ELSE IF RolledBack(st, pk, lts) THEN R(0, 0, "NoAction", "none", st)
     ELSE IF rbIfNotExist
          THEN IF resolvingPess THEN R(0, 0, "LockNotExistDoNothing", "none", st)
               ELSE R(0, 0, "LockNotExistRollback", "none", setLock(l, {RollbackRec(lts)}))          \* R4
          ELSE R(0, 0, "NoAction", "txnnotfound", st)

TxnHeartBeat(st, k, start, advise) ==
  LET l == st.lock[k]
  IN IF IsLocked(l) /\ l.ts = start
     THEN IF l.primary # k THEN Res([ttl |-> 0, err |-> "notprimary"], st)
          ELSE Res([ttl |-> Max2(l.ttl, advise), err |-> "none"],
                   ApplyAll(st, [x \in {k} |-> Eff("none", 0, [l EXCEPT !.ttl = Max2(l.ttl, advise)], {})]))
     ELSE Res([ttl |-> 0, err |-> "nolock"], st)

ResolveLock(st, lo, hi, start, commit) ==
  Res([err |-> "none"], ApplyAll(st, [k \in KeysIn(lo, hi) |-> ResolveKey(st, k, start, commit)]))
\* infos: function start ts -> commit ts (0 = roll back)
BatchResolveLock(st, lo, hi, infos) ==
  Res([err |-> "none"],
      ApplyAll(st, [k \in KeysIn(lo, hi) |->
                      IF IsLocked(st.lock[k]) /\ st.lock[k].ts \in DOMAIN infos
                      THEN ResolveKey(st, k, st.lock[k].ts, infos[st.lock[k].ts]) ELSE NoEff(st, k)]))
LockInfoOf(st, k) == [k |-> k, primary |-> st.lock[k].primary, ts |-> st.lock[k].ts]
RECURSIVE LockInfos(_, _)
LockInfos(st, ks) == IF ks = <<>> THEN <<>> ELSE <<LockInfoOf(st, Head(ks))>> \o LockInfos(st, Tail(ks))
ScanLock(st, lo, hi, maxTs) ==
  LockInfos(st, SortedAsc({k \in KeysIn(lo, hi) : IsLocked(st.lock[k]) /\ st.lock[k].ts <= maxTs}))

\* GC: refuses to run over a lock at or below the safe point; otherwise, per key, of the records at or below
\* the safe point only the newest data record survives, and only if it is a Put
GCKeep(st, k, sp) ==
  LET old == {w \in st.writes[k] : w.commit <= sp}
      data == {w \in old : w.type \in {"Put", "Del"}}
      keep == IF data # {} /\ LatestOf(data).type = "Put" THEN {LatestOf(data)} ELSE {}
  IN (st.writes[k] \ old) \cup keep
GC(st, lo, hi, sp) ==
  IF \E k \in KeysIn(lo, hi) : IsLocked(st.lock[k]) /\ st.lock[k].ts <= sp
  THEN Res([err |-> "lockbelowsafepoint"], st)
  ELSE Res([err |-> "none"], [st EXCEPT !.writes = [k \in Key |-> IF InRange(k, lo, hi) THEN GCKeep(st, k, sp) ELSE st.writes[k]]])

(********************************* invariants *********************************)
\* on one key a transaction is never both committed and rolled back
NeverBoth(st) == \A k \in Key : \A w1, w2 \in st.writes[k] :
                    (w1.start = w2.start /\ w1.type = "Rollback") => w2.type = "Rollback"
\* a scan equals the per-key gets of its range; a reverse scan is its mirror image
ScanEqualsGets(st, ts) ==
  LET s == Scan(st, 0, 0, Cardinality(Key), ts, {})
      r == ReverseScan(st, 0, 0, Cardinality(Key), ts, {})
  IN /\ \A i \in 1..Len(s) : [err |-> s[i].err, lts |-> s[i].lts, val |-> s[i].val] = Get(st, s[i].k, ts, {})
     /\ \A k \in Key : Reports(st, k, ts, {}) <=> \E i \in 1..Len(s) : s[i].k = k
     /\ Len(r) = Len(s) /\ \A i \in 1..Len(s) : r[i] = s[Len(s) + 1 - i]
=============================================================================
