SPECIFICATION Spec
CONSTANT NKeys = 4
POSTCONDITION Done
CHECK_DEADLOCK FALSE
