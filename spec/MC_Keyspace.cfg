SPECIFICATION Spec
CONSTANTS Bytes <- McBytes  MaxLen = 2  Ids <- McIds
INVARIANTS A1 A2 A3 A4 A5
CHECK_DEADLOCK FALSE
