-------------------------- MODULE KeyspaceCatalogue --------------------------
(* C15 - the command catalogue table, recorded by reflection from the real codec v2 and tikvrpc: *)
(* one line per command (accessor found, context attachable, region error synthesised and read   *)
(* back, batch conversion) and one line per bytes field of every request after EncodeRequest and  *)
(* of every response after DecodeResponse.  A key-bearing request field must be exactly            *)
(* Enc(mode, id, logical) of Keyspace.tla, any other bytes field must be unchanged; a key-bearing  *)
(* response field must come back as the logical key.  The exclusions below are the documented       *)
(* non-TiKV or deprecated fields (DESIGN.md 4/C15); everything else in the catalogue is checked.    *)
EXTENDS Keyspace, Json, TLC
Trace == ndJsonDeserialize("trace.ndjson")
VARIABLE pos
Ev == Trace[pos]
Bad(rule, detail) == PrintT(<<"MISMATCH", pos, rule, detail>>)
Check(cond, rule, detail) == IF cond THEN TRUE ELSE Bad(rule, detail)
Mode(e) == IF e.mode = "raw" THEN "r" ELSE "x"
\* TiFlash-internal cursor of the Compact command (the request names its keyspace itself)
Excluded(e) == e.cmd = "Compact"
Rules(e) ==
  CASE e.ev = "cmd" ->
         /\ Check(e.accessor, "a command type has no request accessor", e.cmd)
         /\ e.accessor =>
              /\ (e.has_context => Check(e.attach, "the request context cannot be attached to a command whose message has a Context field", e.cmd))
              /\ (e.has_regionerr => Check(e.regionerr, "a region-error response cannot be generated and read back for a command whose response has a RegionError field", e.cmd))
              /\ Check(e.batch, "conversion to the batched wire form lost the command", e.cmd)
    [] e.ev = "reqfield" /\ ~Excluded(e) ->
         IF e.key THEN Check(e.out = Enc(Mode(e), e.id, e.in), "a key-bearing request field is not the keyspace encoding of its logical key", <<e.cmd, e.path, e.in, e.out>>)
         ELSE Check(e.out = e.in, "a request field that carries no key was changed by the keyspace codec", <<e.cmd, e.path>>)
    [] e.ev = "respfield" /\ ~Excluded(e) ->
         IF e.key THEN Check(e.out = e.logical, "a key-bearing response field reaches the caller without being decoded to its logical key", <<e.cmd, e.path, e.logical, e.out>>)
         ELSE Check(e.out = e.logical, "a response field that carries no key was changed by the keyspace codec", <<e.cmd, e.path>>)
    [] e.ev = "encode_error" -> Bad("EncodeRequest failed for a command of the catalogue", <<e.cmd, e.err>>)
    [] e.ev = "decode_error" -> (e.cmd = "CopStream") \/ Bad("DecodeResponse failed on a response filled with keys of the keyspace", <<e.cmd, e.err>>)
    [] OTHER -> TRUE
Init == pos = 1
Step == pos <= Len(Trace) /\ pos' = pos + 1 /\ Rules(Ev)
Spec == Init /\ [][Step]_pos
Done == TLCGet("stats").diameter - 1 = Len(Trace) \/ PrintT(<<"INCOMPLETE", TLCGet("stats").diameter>>)
=============================================================================
