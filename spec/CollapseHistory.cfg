SPECIFICATION Spec
POSTCONDITION Done
CHECK_DEADLOCK FALSE
