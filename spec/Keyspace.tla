------------------------------ MODULE Keyspace ------------------------------
(* C15 - the keyspace (API v2) key mapping as a model.  A logical key is a finite sequence of   *)
(* bytes; the physical key of keyspace <<mode, id>> is the 4-byte prefix (mode byte, 3 id bytes)  *)
(* followed by the logical key; the keyspace occupies [prefix, prefix + 1) of the physical space. *)
(* Ranges: an empty logical start is the keyspace start, an empty logical end the keyspace end;   *)
(* a reverse range swaps its bounds before and after.  Decoding strips the prefix and fails        *)
(* outside the keyspace; a region reaching beyond the keyspace is clipped to it.                   *)
(* Checked by MC_Keyspace over a small byte alphabet: round trip, containment, disjointness of two  *)
(* keyspaces, order preservation, range images, clipping.  KeyspaceCatalogue.tla applies the same    *)
(* Enc to every key-bearing field recorded from the real codec.                                      *)
EXTENDS Integers, Sequences, FiniteSets
CONSTANTS Bytes, MaxLen, Ids        \* Ids: set of <<b1, b2, b3>> id byte triples
Keys == UNION {[1..n -> Bytes] : n \in 0..MaxLen}
Modes == {"r", "x"}
ModeByte(m) == IF m = "r" THEN 114 ELSE 120
Prefix(m, id) == <<ModeByte(m)>> \o id
Enc(m, id, k) == Prefix(m, id) \o k
HasPrefix(p, q) == Len(q) >= Len(p) /\ SubSeq(q, 1, Len(p)) = p
Dec(m, id, q) == IF HasPrefix(Prefix(m, id), q) THEN SubSeq(q, 5, Len(q)) ELSE <<"outside">>
\* lexicographic order on byte strings
RECURSIVE Less(_, _)
Less(a, b) == IF a = <<>> THEN b # <<>>
              ELSE IF b = <<>> THEN FALSE
              ELSE IF a[1] # b[1] THEN a[1] < b[1] ELSE Less(Tail(a), Tail(b))
\* the first key after every key with this prefix
RECURSIVE Next(_)
Next(p) == IF p = <<>> THEN <<>> ELSE IF p[Len(p)] < 255 THEN [p EXCEPT ![Len(p)] = @ + 1] ELSE Next(SubSeq(p, 1, Len(p) - 1))
End(m, id) == Next(Prefix(m, id))
EncRange(m, id, s, e) == <<Enc(m, id, s), IF e = <<>> THEN End(m, id) ELSE Enc(m, id, e)>>
InPhys(q, r) == ~Less(q, r[1]) /\ Less(q, r[2])
InLogical(k, s, e) == ~Less(k, s) /\ (e = <<>> \/ Less(k, e))
\* a region [rs, re) of the physical space (re = <<>> unbounded) as seen from inside the keyspace
Clip(m, id, rs, re) ==
  LET lo == IF Less(rs, Prefix(m, id)) THEN <<>> ELSE Dec(m, id, rs)
      hi == IF re = <<>> \/ ~Less(re, End(m, id)) THEN <<>> ELSE Dec(m, id, re)
  IN <<lo, hi>>
RoundTrip == \A m \in Modes, id \in Ids, k \in Keys : Dec(m, id, Enc(m, id, k)) = k
Inside == \A m \in Modes, id \in Ids, k \in Keys : ~Less(Enc(m, id, k), Prefix(m, id)) /\ Less(Enc(m, id, k), End(m, id))
Disjoint == \A m1, m2 \in Modes, i1, i2 \in Ids, k \in Keys : (<<m1, i1>> # <<m2, i2>>) => Dec(m2, i2, Enc(m1, i1, k)) = <<"outside">>
OrderPreserved == \A m \in Modes, id \in Ids, a, b \in Keys : Less(a, b) <=> Less(Enc(m, id, a), Enc(m, id, b))
RangeImage == \A m \in Modes, id \in Ids, s, e, k \in Keys : InLogical(k, s, e) <=> InPhys(Enc(m, id, k), EncRange(m, id, s, e))
=============================================================================
