------------------------------ MODULE MC_MVCC ------------------------------
(* Bounded exhaustive exploration of MVCC.tla: every order of store commands issued by a    *)
(* small set of transactions - not restricted to the client protocol (a transaction may     *)
(* commit one key and roll back another) - with pairwise distinct timestamps drawn from a   *)
(* counter, so that all relative orders of start / commit / for-update / current            *)
(* timestamps occur.  Checks the model-level clauses of C12 and is the generator of the     *)
(* command paths replayed into the mock store (B2).                                         *)
EXTENDS MVCCCmd, Json
CONSTANTS Txn, MaxDepth, MaxTso, EmitOn
VARIABLES st, tso, tx, depth, hist
mvars == <<st, tso, tx, depth, hist>>
Ts(n) == n * 1000 + 1                      \* every allocation is a new millisecond
NoTx == [start |-> 0, commit |-> 0, fts |-> 0, done |-> FALSE]
MCInit == st = EmptyStore /\ tso = 0 /\ tx = [t \in Txn |-> NoTx] /\ depth = 0 /\ hist = <<>>
Primary(t) == CHOOSE k \in Key : \A j \in Key : k <= j     \* smallest key is every transaction's primary
Started(t) == tx[t].start # 0
Do(c) == /\ st' = Apply(st, c).st /\ depth' = depth + 1 /\ hist' = Append(hist, c)
         /\ (EmitOn => PrintT(<<"SCN", ToJson(hist')>>))

Begin(t) == /\ ~Started(t) /\ tso < MaxTso /\ tso' = tso + 1
            /\ tx' = [tx EXCEPT ![t].start = Ts(tso + 1)] /\ UNCHANGED <<st, depth, hist>>
DoPrewrite(t, k, op, act) ==
  /\ Started(t) /\ UNCHANGED <<tso, tx>>
  /\ Do([c |-> "Prewrite", muts |-> <<[op |-> op, k |-> k, val |-> (IF op \in {"Put", "Insert"} THEN t ELSE 0), act |-> act]>>,
          start |-> tx[t].start, primary |-> Primary(t), ttl |-> 2, minc |-> tx[t].start + 1,
          fts |-> (IF act = "skip" THEN 0 ELSE tx[t].fts)])
DoPessLock(t, k, newfts) ==
  /\ Started(t) /\ ~tx[t].done
  /\ IF newfts THEN tso < MaxTso /\ tso' = tso + 1 /\ tx' = [tx EXCEPT ![t].fts = Ts(tso + 1)]
     ELSE tx[t].fts # 0 /\ UNCHANGED <<tso, tx>>
  /\ Do([c |-> "PessimisticLock", muts |-> <<[k |-> k, notexist |-> FALSE]>>, start |-> tx[t].start, fts |-> tx'[t].fts,
          primary |-> Primary(t), ttl |-> 2, minc |-> 0, retvals |-> TRUE, checkex |-> FALSE, onlyif |-> FALSE, nowait |-> TRUE])
DoCommit(t, k, newts) ==
  /\ Started(t)
  /\ IF newts THEN tso < MaxTso /\ tso' = tso + 1 /\ tx' = [tx EXCEPT ![t].commit = Ts(tso + 1), ![t].done = TRUE]
     ELSE tx[t].commit # 0 /\ UNCHANGED <<tso, tx>>
  /\ Do([c |-> "Commit", ks |-> <<k>>, start |-> tx[t].start, commit |-> tx'[t].commit])
DoRollback(t, k) == /\ Started(t) /\ tx' = [tx EXCEPT ![t].done = TRUE] /\ UNCHANGED tso
                    /\ Do([c |-> "Rollback", ks |-> <<k>>, start |-> tx[t].start])
DoCleanup(t, k, cur) == /\ Started(t) /\ tx' = [tx EXCEPT ![t].done = TRUE] /\ UNCHANGED tso
                        /\ Do([c |-> "Cleanup", k |-> k, start |-> tx[t].start, current |-> cur])
DoCheck(t, caller, cur, rb) == /\ Started(t) /\ tx' = [tx EXCEPT ![t].done = TRUE] /\ UNCHANGED tso
                               /\ Do([c |-> "CheckTxnStatus", pk |-> Primary(t), lts |-> tx[t].start, caller |-> caller, current |-> cur, rb |-> rb, rp |-> FALSE])
DoResolve(t, commit) ==
  /\ Started(t) /\ (commit => tx[t].commit # 0) /\ tx' = [tx EXCEPT ![t].done = TRUE] /\ UNCHANGED tso
  /\ Do([c |-> "ResolveLock", lo |-> 0, hi |-> 0, start |-> tx[t].start, commit |-> (IF commit THEN tx[t].commit ELSE 0)])
DoGC(sp) == /\ UNCHANGED <<tso, tx>> /\ Do([c |-> "GC", lo |-> 0, hi |-> 0, sp |-> sp])
CurChoices == {0, Ts(tso), Ts(tso + 5), MaxTs}
MCNext ==
  /\ depth < MaxDepth
  /\ \/ \E t \in Txn : Begin(t)
     \/ \E t \in Txn, k \in Key, op \in {"Put", "Del", "Lock", "Insert"}, act \in {"skip", "pess"} : DoPrewrite(t, k, op, act)
     \/ \E t \in Txn, k \in Key, n \in BOOLEAN : DoPessLock(t, k, n)
     \/ \E t \in Txn, k \in Key, n \in BOOLEAN : DoCommit(t, k, n)
     \/ \E t \in Txn, k \in Key : DoRollback(t, k)
     \/ \E t \in Txn, k \in Key, cur \in CurChoices : DoCleanup(t, k, cur)
     \/ \E t \in Txn, caller \in {Ts(tso), MaxTs}, cur \in CurChoices \ {0}, rb \in BOOLEAN : DoCheck(t, caller, cur, rb)
     \/ \E t \in Txn, c \in BOOLEAN : DoResolve(t, c)
     \/ \E sp \in {Ts(n) : n \in 1..tso} : DoGC(sp)
MCSpec == MCInit /\ [][MCNext]_mvars

(************************ model-level clauses of C12 ************************)
TsSet == {Ts(n) : n \in 0..(tso + 1)} \cup {Ts(n) - 1 : n \in 1..(tso + 1)} \cup {MaxTs}
InvNeverBoth == NeverBoth(st)
InvScan == \A ts \in TsSet : ScanEqualsGets(st, ts)
\* a read sees the newest commit at or below its timestamp or reports the blocking lock
InvRead == \A k \in Key, ts \in TsSet :
             LET r == Get(st, k, ts, {}) IN
             IF r.err = "locked" THEN st.lock[k].ts = r.lts /\ r.lts <= ts
             ELSE IF ts = MaxTs /\ IsLocked(st.lock[k]) /\ st.lock[k].primary = k /\ st.lock[k].kind \in {"Put", "Del"}
                  THEN r.val = VisibleVal(st, k, st.lock[k].ts - 1)
                  ELSE r.val = VisibleVal(st, k, ts)
\* repeating a command over its own effect answers the same and changes nothing
Idem(f(_)) == LET r1 == f(st) r2 == f(r1.st) IN r2.st = r1.st /\ (r1.resp.err = "none" => r2.resp = r1.resp)
InvIdem == \A t \in Txn : Started(t) => \A k \in Key :
   /\ LET r1 == Commit(st, <<k>>, tx[t].start, Ts(tso + 1)) r2 == Commit(r1.st, <<k>>, tx[t].start, Ts(tso + 1))
      IN r2.st = r1.st /\ ((r1.resp.err = "none" /\ Committed(r1.st, k, tx[t].start)) => r2.resp = r1.resp)
   /\ Idem(LAMBDA s : Rollback(s, <<k>>, tx[t].start))
   /\ Idem(LAMBDA s : Cleanup(s, k, tx[t].start, 0))
   /\ Idem(LAMBDA s : ResolveLock(s, 0, 0, tx[t].start, 0))
   /\ Idem(LAMBDA s : ResolveLock(s, 0, 0, tx[t].start, Ts(tso + 1)))
   /\ \A op \in {"Put", "Del", "Lock", "Insert"} :
        LET f(s) == Prewrite(s, <<[op |-> op, k |-> k, val |-> 1, act |-> "skip"]>>,
                             [start |-> tx[t].start, primary |-> k, ttl |-> 2, minc |-> 0, fts |-> 0])
            r1 == f(st) r2 == f(r1.st)
        IN r1.resp.errs = <<>> => (r2.st = r1.st /\ r2.resp = r1.resp)
   /\ LET f(s) == CheckTxnStatus(s, k, tx[t].start, Ts(tso), MaxTs, TRUE, FALSE)
          r1 == f(st) r2 == f(r1.st)
      IN r2.st = r1.st /\ r2.resp.ttl = r1.resp.ttl /\ r2.resp.commit = r1.resp.commit /\ r2.resp.err = r1.resp.err
\* a prewrite that arrives after the transaction's own commit or rollback on the key is rejected
InvLatePrewrite == \A t \in Txn, k \in Key :
   (Started(t) /\ (Committed(st, k, tx[t].start) \/ RolledBack(st, k, tx[t].start))) =>
      \A op \in {"Put", "Del", "Lock", "Insert"}, act \in {"skip", "pess"} :
         Prewrite(st, <<[op |-> op, k |-> k, val |-> 1, act |-> act]>>,
                  [start |-> tx[t].start, primary |-> k, ttl |-> 2, minc |-> 0, fts |-> IF act = "skip" THEN 0 ELSE tx[t].start]).resp.errs # <<>>
\* GC refuses over a lock at or below the safe point, otherwise preserves every read at or above it
InvGC == \A n \in 1..tso :
   LET sp == Ts(n) r == GC(st, 0, 0, sp)
   IN IF \E k \in Key : IsLocked(st.lock[k]) /\ st.lock[k].ts <= sp THEN r.resp.err # "none" /\ r.st = st
      ELSE /\ r.resp.err = "none"
           /\ \A k \in Key, ts \in TsSet : ts >= sp => VisibleVal(r.st, k, ts) = VisibleVal(st, k, ts)
           /\ r.st.lock = st.lock
\* a rollback of any kind leaves a marker (or finds the transaction committed)
InvMarker == \A t \in Txn, k \in Key : Started(t) =>
   /\ LET r == Rollback(st, <<k>>, tx[t].start) IN r.resp.err = "none" => RolledBack(r.st, k, tx[t].start)
   /\ LET r == Cleanup(st, k, tx[t].start, 0) IN r.resp.err = "none" => RolledBack(r.st, k, tx[t].start)
   /\ LET r == CheckTxnStatus(st, k, tx[t].start, Ts(tso), MaxTs, TRUE, FALSE)
      IN (r.resp.err = "none" /\ r.resp.commit = 0) => RolledBack(r.st, k, tx[t].start)
   /\ LET r == ResolveLock(st, 0, 0, tx[t].start, 0)
      IN (IsLocked(st.lock[k]) /\ st.lock[k].ts = tx[t].start) => RolledBack(r.st, k, tx[t].start)
VIEW_ == <<st, tso, tx, depth>>
\* generator (Gen_MVCC.cfg): with `hist` hidden by the VIEW every distinct state is expanded once, and each of its
\* outgoing transitions prints the first path that reached it plus that transition - an edge cover of the graph
=============================================================================
