SPECIFICATION Spec
CONSTANTS Callers = {1, 2, 3} MaxStreams = 3 ReuseIds = FALSE MaxId = 7
INVARIANTS OwnResponse IdsUnique NoOrphans
CONSTRAINT Bound
CHECK_DEADLOCK FALSE
