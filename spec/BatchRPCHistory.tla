--------------------------- MODULE BatchRPCHistory ---------------------------
(* C18 - property-level monitor: one line per SendRequest call of the real RPCClient against   *)
(* an echoing, misbehaving batch server.  A call returns either an error or the response to its  *)
(* own request; it never blocks beyond its time-out (or its cancellation) by more than the slack  *)
(* granted to the scheduler; once the client is closed nothing is sent any more.                   *)
EXTENDS Integers, Sequences, TLC, Json
Trace == ndJsonDeserialize("trace.ndjson")
VARIABLE pos
Ev == Trace[pos]
SlackMs == 1500
Bad(rule, detail) == PrintT(<<"MISMATCH", pos, rule, detail>>)
Check(cond, rule, detail) == IF cond THEN TRUE ELSE Bad(rule, detail)
Rules(e) ==
  /\ Check(e.outcome # "never" /\ e.returns = 1, "a call did not return exactly once (the asynchronous callback was never, or repeatedly, invoked)", <<e.key, e.returns>>)
  /\ Check(e.outcome \in {"resp", "err", "never"}, "a call returned neither a response nor an error", e.key)
  \* once the server answers everything at once, a call with a generous time-out gets its own answer: what is left of the
  \* faulty phase (entries, slots of the concurrency limit) must not starve it
  /\ e.healthy => Check(e.outcome = "resp", "a call to a healthy server failed (something leaked from earlier calls starves it)", <<e.key, e.err>>)
  /\ (e.outcome = "resp") => Check(e.own, "a call received a response that is not the response to its own request", <<e.key, e.value>>)
  /\ Check(e.latency_ms <= e.timeout_ms + SlackMs, "a call blocked beyond its time-out", <<e.key, e.timeout_ms, e.latency_ms>>)
  /\ (e.cancel_ms >= 0 /\ e.outcome = "err") => Check(e.latency_ms <= e.timeout_ms + SlackMs, "a cancelled call kept blocking", <<e.key, e.cancel_ms, e.latency_ms>>)
  /\ e.closed_before => Check(e.outcome = "err", "a call made after the client was closed did not fail", e.key)
Init == pos = 1
Next == pos <= Len(Trace) /\ pos' = pos + 1 /\ (Ev.ev = "call" => Rules(Ev))
Spec == Init /\ [][Next]_pos
Done == TLCGet("stats").diameter - 1 = Len(Trace) \/ PrintT(<<"INCOMPLETE", TLCGet("stats").diameter>>)
=============================================================================
