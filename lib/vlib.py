"""Shared plumbing for /verif checks: TLC driver, Go overlay runner, evidence, findings.

Verdict rule (DESIGN 2.3): VIOLATION only from real-code traces that the spec rejects;
infrastructure failures raise Infra (exit 2).
"""
import json, os, re, shutil, subprocess, sys, time, hashlib

VERIF = os.path.dirname(os.path.dirname(os.path.abspath(__file__)))
REPO = os.environ.get("VERIF_REPO", "/repo")
WORK = os.path.join(VERIF, ".work")
SPEC = os.path.join(VERIF, "spec")
HARNESS = os.path.join(VERIF, "harness")
EVID = os.path.join(VERIF, "evidence")
REPLAYS = os.path.join(VERIF, "replays")
TLA_JAR = "/opt/veriftools/tla/tla2tools.jar:/opt/veriftools/tla/CommunityModules-deps.jar"


class Infra(Exception):
    pass


def log(*a):
    print("[verif]", *a, file=sys.stderr, flush=True)


def go_env():
    env = dict(os.environ)
    env["GOFLAGS"] = "-mod=mod"
    env["GOPROXY"] = "off"
    env.pop("GOSUMDB", None)
    env.setdefault("GOTOOLCHAIN", "auto")
    if env["GOTOOLCHAIN"] == "local":
        env["GOTOOLCHAIN"] = "auto"
    return env


def fresh_dir(*parts):
    d = os.path.join(WORK, *parts)
    shutil.rmtree(d, ignore_errors=True)
    os.makedirs(d, exist_ok=True)
    return d


# --------------------------------------------------------------------------------------------
# TLC
# --------------------------------------------------------------------------------------------
class TLCResult:
    def __init__(self):
        self.out = ""
        self.rc = None
        self.generated = 0
        self.distinct = 0
        self.depth = 0
        self.ok = False  # finished without error
        self.invariant = None  # violated invariant / property name
        self.timed_out = False
        self.wall = 0.0
        self.coverage = {}
        self.prints = []  # parsed <<"TAG", ...>> prints (raw strings)

    def summary(self):
        return dict(generated=self.generated, distinct=self.distinct, depth=self.depth,
                    ok=self.ok, invariant=self.invariant, wall_s=round(self.wall, 2))


def run_tlc(workdir, module, cfg=None, workers=1, timeout=600, files=None, simulate=None,
            depth_first=False, coverage=False, extra=None, heap=None, deadlock=None, dump=None):
    """Run TLC on `module` (name without .tla) inside scratch dir `workdir`.
    All of spec/*.tla and spec/*.cfg are copied there first; `files` maps target name -> source path.
    """
    os.makedirs(workdir, exist_ok=True)
    for f in os.listdir(SPEC):
        if f.endswith(".tla") or f.endswith(".cfg"):
            shutil.copy(os.path.join(SPEC, f), os.path.join(workdir, f))
    for tgt, src in (files or {}).items():
        if os.path.abspath(src) != os.path.abspath(os.path.join(workdir, tgt)):
            shutil.copy(src, os.path.join(workdir, tgt))
    cfg = cfg or (module + ".cfg")
    jtmp = os.path.join(workdir, "jtmp")
    os.makedirs(jtmp, exist_ok=True)
    java = ["java", "-XX:+UseParallelGC", "-Xss64m", "-Djava.io.tmpdir=" + jtmp]
    if heap:
        java.append("-Xmx" + heap)
    if depth_first:
        java.append("-Dtlc2.tool.queue.IStateQueue=StateDeque")
    cmd = ["timeout", str(int(timeout))] + java + ["-cp", TLA_JAR, "tlc2.TLC", "-workers", str(workers),
           "-metadir", os.path.join(workdir, "md"), "-config", cfg]
    if simulate:
        cmd += ["-simulate", simulate]
    if coverage:
        cmd += ["-coverage", "1"]
    if deadlock is False:
        cmd += ["-deadlock"]  # -deadlock disables deadlock checking
    if dump:
        cmd += ["-dump", dump[0], dump[1]]
    cmd += (extra or [])
    cmd += [module + ".tla"]
    t0 = time.time()
    p = subprocess.run(cmd, cwd=workdir, stdout=subprocess.PIPE, stderr=subprocess.STDOUT, text=True, errors="replace")
    r = TLCResult()
    r.wall = time.time() - t0
    r.out = p.stdout
    r.rc = p.returncode
    r.timed_out = (p.returncode == 124)
    m = None
    for m in re.finditer(r"(\d+) states generated, (\d+) distinct states found", r.out):
        pass
    if m:
        r.generated, r.distinct = int(m.group(1)), int(m.group(2))
    m = re.search(r"The depth of the complete state graph search is (\d+)", r.out)
    if m:
        r.depth = int(m.group(1))
    m = re.search(r"Invariant (\S+) is violated", r.out)
    if m:
        r.invariant = m.group(1)
    m2 = re.search(r"Temporal properties were violated|Action property (\S+) is violated|property (\S+) is violated", r.out)
    if m2 and not r.invariant:
        r.invariant = m2.group(1) or m2.group(2) or "temporal"
    r.ok = ("Model checking completed. No error has been found" in r.out) or (simulate and p.returncode in (0,))
    with open(os.path.join(workdir, module + ".out"), "w") as f:
        f.write(r.out)
    return r


def tlc_prints(out, tag):
    """Return the list of TLC-printed tuples starting with "tag" as raw strings (multi-line joined)."""
    res = []
    cur = None
    for line in out.splitlines():
        if cur is None:
            if re.match(r'<<\s*"%s"' % re.escape(tag), line):
                cur = line
                if _balanced(cur):
                    res.append(cur)
                    cur = None
        else:
            cur += " " + line.strip()
            if _balanced(cur):
                res.append(cur)
                cur = None
    return res


def _balanced(s):
    return s.count("<<") == s.count(">>") and s.count("[") == s.count("]") and s.count("(") == s.count(")")


def clean_tlc_dir(workdir):
    for sub in ("md", "states", "jtmp"):
        shutil.rmtree(os.path.join(workdir, sub), ignore_errors=True)


# --------------------------------------------------------------------------------------------
# Go harness runner (overlay injection into /repo packages; nothing is written into /repo)
# --------------------------------------------------------------------------------------------
def go_overlay_test(pkg, files, run, env=None, timeout=600, workdir=None, tags="verif", extra_overlay=None,
                    count=1, race=False, cpu=None):
    """Run `go test` in REPO/<pkg> with harness files injected as `_test.go` files.
    files: {basename in package dir: absolute source path}."""
    workdir = workdir or fresh_dir("go", pkg.replace("/", "_"))
    os.makedirs(workdir, exist_ok=True)
    ov = {"Replace": {}}
    for name, src in files.items():
        ov["Replace"][os.path.join(REPO, pkg, name)] = src
    for k, v in (extra_overlay or {}).items():
        ov["Replace"][k] = v
    ovp = os.path.join(workdir, "overlay.json")
    with open(ovp, "w") as f:
        json.dump(ov, f)
    e = go_env()
    e.update(env or {})
    cmd = ["timeout", str(int(timeout) + 30), "go", "test", "-overlay", ovp, "-vet=off", "-count=%d" % count,
           "-timeout", "%ds" % int(timeout), "-run", run]
    if tags:
        cmd += ["-tags", tags]
    if race:
        cmd += ["-race"]
    if cpu:
        cmd += ["-cpu", str(cpu)]
    cmd += ["./" + pkg]
    t0 = time.time()
    tmpd = _scratch_tmp(e)
    try:
        p = subprocess.run(cmd, cwd=REPO, env=e, stdout=subprocess.PIPE, stderr=subprocess.STDOUT, text=True, errors="replace")
    finally:
        shutil.rmtree(tmpd, ignore_errors=True)
    out = p.stdout
    with open(os.path.join(workdir, "go.out"), "w") as f:
        f.write(out)
    if p.returncode != 0:
        if "[build failed]" in out or "cannot find" in out or "[setup failed]" in out:
            raise Infra("go build failed for %s:\n%s" % (pkg, out[-4000:]))
        if p.returncode == 124 or "panic: test timed out" in out:
            raise Infra("go harness timed out for %s:\n%s" % (pkg, out[-3000:]))
    return p.returncode, out, time.time() - t0


def _scratch_tmp(e):
    """A private TMPDIR for one harness process, removed when it ends: the in-process stores (unistore, mocktikv's
    leveldb) create directories under the temporary directory and do not always remove them."""
    import tempfile
    os.makedirs(WORK, exist_ok=True)
    d = tempfile.mkdtemp(prefix="tmp_", dir=WORK)
    e["TMPDIR"] = d
    return d


def go_run_module(moddir, args, env=None, timeout=900):
    e = go_env()
    e.update(env or {})
    tmpd = _scratch_tmp(e)
    try:
        p = subprocess.run(["timeout", str(int(timeout))] + args, cwd=moddir, env=e, stdout=subprocess.PIPE,
                           stderr=subprocess.STDOUT, text=True, errors="replace")
    finally:
        shutil.rmtree(tmpd, ignore_errors=True)
    return p.returncode, p.stdout


# --------------------------------------------------------------------------------------------
# Traces
# --------------------------------------------------------------------------------------------
def read_ndjson(path):
    out = []
    with open(path) as f:
        for line in f:
            line = line.strip()
            if line:
                out.append(json.loads(line))
    return out


def read_ndjson_lenient(path):
    """Like read_ndjson, but stops at the first line that does not parse (a trace cut short by a crash)."""
    out = []
    with open(path, errors="replace") as f:
        for line in f:
            line = line.strip()
            if not line:
                continue
            try:
                out.append(json.loads(line))
            except ValueError:
                break
    return out


def write_ndjson(path, events):
    with open(path, "w") as f:
        for e in events:
            f.write(json.dumps(e, separators=(",", ":")) + "\n")


def split_runs(events):
    """Split a concatenated trace at {"ev":"reset"} lines -> list of (start_line_1based, [events incl. reset])."""
    runs, cur, start = [], [], 1
    for i, e in enumerate(events, 1):
        if e.get("ev") == "reset" and cur:
            runs.append((start, cur))
            cur, start = [], i
        cur.append(e)
    if cur:
        runs.append((start, cur))
    return runs


# --------------------------------------------------------------------------------------------
# Evidence, findings, verdicts
# --------------------------------------------------------------------------------------------
def load_findings():
    p = os.path.join(VERIF, "known_findings.json")
    if not os.path.exists(p):
        return []
    return json.load(open(p))["findings"]


class Verdict:
    """Collects violations (signature -> details), matches them against known_findings.json."""

    def __init__(self, prop):
        self.prop = prop
        self.viol = {}  # signature -> dict(what, replay)
        self.known_hits = {}
        self.notes = []

    def violation(self, signature, what, replay_events=None, replay_path=None):
        if signature in self.viol:
            self.viol[signature]["count"] += 1
            return
        if replay_path is None:
            os.makedirs(os.path.join(REPLAYS, self.prop), exist_ok=True)
            h = hashlib.sha1(signature.encode()).hexdigest()[:10]
            replay_path = os.path.join(REPLAYS, self.prop, "%s.ndjson" % h)
            write_ndjson(replay_path, replay_events or [{"signature": signature, "what": what}])
        self.viol[signature] = dict(what=what, replay=replay_path, count=1)

    def finish(self):
        """Print VIOLATION / KNOWN-FINDING lines. Returns number of unlisted violations."""
        open_f = {f["signature"]: f for f in load_findings() if f["property"] == self.prop and f.get("status") == "open"}
        n = 0
        for sig, v in sorted(self.viol.items()):
            if sig in open_f:
                print("KNOWN-FINDING: property=%s %s [%s] (x%d)" % (self.prop, open_f[sig]["what"], sig, v["count"]))
                self.known_hits[sig] = v
            else:
                n += 1
                print("VIOLATION property=%s replay=%s" % (self.prop, v["replay"]))
                print("  signature=%s what=%s (x%d)" % (sig, v["what"], v["count"]))
        for sig, f in open_f.items():
            if sig not in self.viol:
                log("note: known finding %s not reproduced in this run" % sig)
        sys.stdout.flush()
        return n


def write_evidence(prop, tier, seed, level, coverage, wall, violations, assumptions=None):
    os.makedirs(EVID, exist_ok=True)
    ev = dict(property_id=prop, tier=tier, seed=int(seed), level=level, coverage=coverage,
              assumptions=assumptions or [], wall_s=round(wall, 2), violations=int(violations))
    with open(os.path.join(EVID, prop + ".json"), "w") as f:
        json.dump(ev, f, indent=1, sort_keys=True)
    return ev


def seed_from_env():
    try:
        return int(os.environ.get("VERIF_SEED", "1"))
    except ValueError:
        return 1


# --------------------------------------------------------------------------------------------
# Generic trace validation (Good \/ (~ENABLED Good /\ MISMATCH /\ Resync) idiom + high-water mark)
# --------------------------------------------------------------------------------------------
class TraceResult:
    def __init__(self):
        self.mismatches = []   # (line, raw tuple string)
        self.rejected = None   # line at which no step at all was possible
        self.invariant = None  # violated invariant name (state invariant on a bound state)
        self.tlc = None


def validate_trace(workdir, module, trace_path, cfg=None, timeout=1800, depth_first=False, extra_files=None):
    files = {"trace.ndjson": trace_path}
    files.update(extra_files or {})
    r = run_tlc(workdir, module, cfg=cfg, workers=1, timeout=timeout, files=files, depth_first=depth_first)
    tr = TraceResult()
    tr.tlc = r
    if r.timed_out:
        raise Infra("trace validation timed out (%s)" % module)
    for m in tlc_prints(r.out, "MISMATCH"):
        mm = re.match(r'<<\s*"MISMATCH",\s*(\d+),\s*(.*)>>\s*$', m, re.S)
        if mm:
            tr.mismatches.append((int(mm.group(1)), mm.group(2).strip()))
    rej = tlc_prints(r.out, "REJECTED_AT_LINE")
    if rej:
        mm = re.match(r'<<\s*"REJECTED_AT_LINE",\s*(\d+)', rej[0])
        tr.rejected = int(mm.group(1))
    tr.invariant = r.invariant
    if not r.ok and tr.rejected is None and tr.invariant is None:
        raise Infra("TLC error while validating trace with %s:\n%s" % (module, r.out[-3000:]))
    clean_tlc_dir(workdir)
    return tr


def hoist_truth(events, nkeys=4):
    """Copy each run's final projection into its reset line (reads earlier in the run are judged against it)."""
    empty = {"lock": [{"ts": 0, "primary": 0, "kind": "None"} for _ in range(nkeys)], "writes": [[] for _ in range(nkeys)]}
    last_reset = None
    for e in events:
        if e.get("ev") == "reset":
            last_reset = e
            e["truth"], e["hastruth"] = empty, False
        elif e.get("ev") == "final" and last_reset is not None:
            last_reset["truth"], last_reset["hastruth"] = e["proj"], True
    return events


def denull(x):
    """JSON null (a nil Go slice) -> empty list; TLC's Json module has no null."""
    if x is None:
        return []
    if isinstance(x, dict):
        return {k: denull(v) for k, v in x.items()}
    if isinstance(x, list):
        return [denull(v) for v in x]
    return x
