---- MODULE Toy ----
EXTENDS Integers, Sequences, TLC, Json, FiniteSets
VARIABLES m, l
Trace == ndJsonDeserialize("trace.ndjson")
Init == m = [k \in {} |-> 0] /\ l = 1
Put == /\ l <= Len(Trace) /\ Trace[l].op = "put"
       /\ m' = [k \in DOMAIN m \cup {Trace[l].k} |-> IF k = Trace[l].k THEN Trace[l].v ELSE m[k]]
       /\ l' = l + 1
Get == /\ l <= Len(Trace) /\ Trace[l].op = "get"
       /\ (IF Trace[l].k \in DOMAIN m THEN Trace[l].v = m[Trace[l].k] ELSE Trace[l].v = -1)
       /\ UNCHANGED m /\ l' = l + 1
Next == Put \/ Get
Spec == Init /\ [][Next]_<<m,l>>
Accepted == TLCGet("stats").diameter - 1 = Len(Trace)
View == l
====
