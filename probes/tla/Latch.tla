---- MODULE Latch ----
EXTENDS Integers, Sequences, FiniteSets, TLC
CONSTANTS Txn, Key, KeysOf, SlotOf, StartTs, CommitTs, None
\* KeysOf[t] : sorted sequence of keys;  SlotOf[k] : slot id

VARIABLES node,     \* [Key -> [exists, holder, maxCommit]]
          waiting,  \* [Slot -> Seq(Txn)]
          acq, stale, pc,
          chan,     \* unlock channel
          sched     \* [pc, cur, wake]
vars == <<node, waiting, acq, stale, pc, chan, sched>>

Slots == {SlotOf[k] : k \in Key}
N(t) == Len(KeysOf[t])
Max(a, b) == IF a > b THEN a ELSE b

Init ==
  /\ node = [k \in Key |-> [exists |-> FALSE, holder |-> None, maxCommit |-> 0]]
  /\ waiting = [s \in Slots |-> <<>>]
  /\ acq = [t \in Txn |-> 0] /\ stale = [t \in Txn |-> FALSE]
  /\ pc = [t \in Txn |-> "idle"]
  /\ chan = <<>>
  /\ sched = [pc |-> "idle", cur |-> None, wake |-> <<>>]

\* one latch-mutex critical section of acquireSlot, executed on behalf of t; who = "self" | "sched"
AcquireSlotEffect(t) ==
  LET k == KeysOf[t][acq[t] + 1]  s == SlotOf[k] IN
  IF ~node[k].exists
  THEN /\ node' = [node EXCEPT ![k] = [exists |-> TRUE, holder |-> t, maxCommit |-> 0]]
       /\ acq' = [acq EXCEPT ![t] = @ + 1]
       /\ UNCHANGED <<waiting, stale>>
       /\ pc' = [pc EXCEPT ![t] = IF acq[t] + 1 = N(t) THEN "holding" ELSE "acquiring"]
  ELSE IF node[k].maxCommit > StartTs[t]
  THEN /\ stale' = [stale EXCEPT ![t] = TRUE]
       /\ pc' = [pc EXCEPT ![t] = "holding"]
       /\ UNCHANGED <<node, waiting, acq>>
  ELSE IF node[k].holder = None
  THEN /\ node' = [node EXCEPT ![k].holder = t]
       /\ acq' = [acq EXCEPT ![t] = @ + 1]
       /\ UNCHANGED <<waiting, stale>>
       /\ pc' = [pc EXCEPT ![t] = IF acq[t] + 1 = N(t) THEN "holding" ELSE "acquiring"]
  ELSE /\ waiting' = [waiting EXCEPT ![s] = Append(@, t)]
       /\ pc' = [pc EXCEPT ![t] = "blocked"]
       /\ UNCHANGED <<node, acq, stale>>

Start(t) == pc[t] = "idle" /\ pc' = [pc EXCEPT ![t] = "acquiring"]
            /\ UNCHANGED <<node, waiting, acq, stale, chan, sched>>

\* Lock() running in the caller's goroutine
SelfAcquire(t) == pc[t] = "acquiring" /\ AcquireSlotEffect(t) /\ UNCHANGED <<chan, sched>>

UnLock(t) == /\ pc[t] = "holding"
             /\ chan' = Append(chan, t)
             /\ pc' = [pc EXCEPT ![t] = "unlocking"]
             /\ UNCHANGED <<node, waiting, acq, stale, sched>>

SchedTake == /\ sched.pc = "idle" /\ chan # <<>>
             /\ sched' = [pc |-> "releasing", cur |-> Head(chan), wake |-> <<>>]
             /\ chan' = Tail(chan)
             /\ UNCHANGED <<node, waiting, acq, stale, pc>>

FirstWaiterIdx(s, k) ==
  LET idxs == {i \in 1..Len(waiting[s]) : KeysOf[waiting[s][i]][acq[waiting[s][i]] + 1] = k}
  IN IF idxs = {} THEN 0 ELSE CHOOSE i \in idxs : \A j \in idxs : i <= j
RemoveAt(q, i) == SubSeq(q, 1, i - 1) \o SubSeq(q, i + 1, Len(q))

SchedReleaseSlot ==
  /\ sched.pc = "releasing"
  /\ LET t == sched.cur IN
     IF acq[t] = 0
     THEN /\ sched' = [sched EXCEPT !.pc = IF sched.wake = <<>> THEN "idle" ELSE "waking"]
          /\ pc' = [pc EXCEPT ![t] = "done"]
          /\ UNCHANGED <<node, waiting, acq, stale, chan>>
     ELSE LET k == KeysOf[t][acq[t]]  s == SlotOf[k]
              commit == IF stale[t] THEN 0 ELSE CommitTs[t]
              mc == Max(node[k].maxCommit, commit)
              i == FirstWaiterIdx(s, k) IN
          IF i = 0
          THEN /\ node' = [node EXCEPT ![k] = [@ EXCEPT !.holder = None, !.maxCommit = mc]]
               /\ acq' = [acq EXCEPT ![t] = @ - 1]
               /\ UNCHANGED <<waiting, stale, pc, chan, sched>>
          ELSE LET w == waiting[s][i] IN
               /\ waiting' = [waiting EXCEPT ![s] = RemoveAt(@, i)]
               /\ sched' = [sched EXCEPT !.wake = Append(@, w)]
               /\ IF mc > StartTs[w]
                  THEN /\ node' = [node EXCEPT ![k] = [@ EXCEPT !.holder = w, !.maxCommit = mc]]
                       /\ acq' = [acq EXCEPT ![t] = @ - 1, ![w] = @ + 1]
                       /\ stale' = [stale EXCEPT ![w] = TRUE]
                  ELSE /\ node' = [node EXCEPT ![k] = [@ EXCEPT !.holder = None, !.maxCommit = mc]]
                       /\ acq' = [acq EXCEPT ![t] = @ - 1]
                       /\ UNCHANGED stale
               /\ UNCHANGED <<pc, chan>>

\* wakeup(): the scheduler goroutine runs acquire(w) slot by slot
SchedWake ==
  /\ sched.pc = "waking"
  /\ LET w == Head(sched.wake) IN
     IF stale[w]
     THEN /\ pc' = [pc EXCEPT ![w] = "holding"]
          /\ sched' = [sched EXCEPT !.wake = Tail(@), !.pc = IF Tail(sched.wake) = <<>> THEN "idle" ELSE "waking"]
          /\ UNCHANGED <<node, waiting, acq, stale, chan>>
     ELSE /\ AcquireSlotEffect(w)
          /\ UNCHANGED chan
          /\ sched' = IF pc'[w] = "acquiring"
                      THEN sched   \* more slots to take, stay on the same waiter
                      ELSE [sched EXCEPT !.wake = Tail(@), !.pc = IF Tail(sched.wake) = <<>> THEN "idle" ELSE "waking"]

\* while the scheduler is acquiring for w, w's pc must not be picked up by SelfAcquire
SelfAcquireGuarded(t) == /\ ~(sched.pc = "waking" /\ Head(sched.wake) = t) /\ SelfAcquire(t)

Next == \/ \E t \in Txn : Start(t) \/ SelfAcquireGuarded(t) \/ UnLock(t)
        \/ SchedTake \/ SchedReleaseSlot \/ SchedWake
Spec == Init /\ [][Next]_vars

AllDone == \A t \in Txn : pc[t] = "done"
NoDeadlock == (ENABLED Next) \/ AllDone

Exclusive == \A t \in Txn : (pc[t] = "holding" /\ ~stale[t]) =>
                \A i \in 1..N(t) : node[KeysOf[t][i]].holder = t
StaleExactly == \A t \in Txn : pc[t] = "holding" =>
                (stale[t] <=> \E i \in 1..N(t) : node[KeysOf[t][i]].exists /\ node[KeysOf[t][i]].maxCommit > StartTs[t])
====
