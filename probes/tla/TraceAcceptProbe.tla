---- MODULE TraceAcceptProbe ----
EXTENDS Integers, Sequences, TLC, Json
Trace == ndJsonDeserialize("trace.ndjson")
VARIABLES pos, x
vars == <<pos, x>>
Init == TLCSet(1, 0) /\ pos = 1 /\ x = 0
\* event "add" with logged result; the amount added is NOT logged (TLC infers 1 or 2)
Add == /\ pos <= Len(Trace) /\ Trace[pos].ev = "add"
       /\ \E d \in {1, 2} : x' = x + d
       /\ x' = Trace[pos].res
       /\ pos' = pos + 1
Reset == /\ pos <= Len(Trace) /\ Trace[pos].ev = "reset" /\ x' = 0 /\ pos' = pos + 1
Next == Add \/ Reset
Spec == Init /\ [][Next]_vars
\* high-water mark of the consumed prefix, maintained from a constraint (evaluated on every state)
HW == IF TLCGet(1) < pos THEN TLCSet(1, pos) ELSE TRUE
InitHW == TLCSet(1, 0)
Accepted == IF TLCGet(1) = Len(Trace) + 1 THEN TRUE
            ELSE Print(<<"REJECTED_AT_LINE", TLCGet(1), Trace[TLCGet(1)]>>, FALSE)
Inv == x <= 100
====
