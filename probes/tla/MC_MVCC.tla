---- MODULE MC_MVCC ----
EXTENDS MVCC_sizing_draft
mcKey == {"a", "b"}
mcTxn == {"t1", "t2"}
mcStart == [t \in mcTxn |-> IF t = "t1" THEN 1 ELSE 3]
mcPrimary == [t \in mcTxn |-> "a"]
====
