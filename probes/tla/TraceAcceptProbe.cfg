SPECIFICATION Spec
CONSTRAINT HW
INVARIANT Inv
POSTCONDITION Accepted
CHECK_DEADLOCK FALSE
