---- MODULE TxnHistorySketch ----
EXTENDS Integers, Sequences, FiniteSets, TLC, Json
Trace == ndJsonDeserialize("trace.ndjson")

TsLess(a, b) == a.p < b.p \/ (a.p = b.p /\ a.l < b.l)
TsLeq(a, b)  == a = b \/ TsLess(a, b)

VARIABLES pos,        \* next trace line
          proj,     \* store projection logged after the last RPC: key |-> [lock, writes]
          txns,     \* txn id |-> [start, commit, ack, wrote, mode, ended]
          reads     \* completed reads still to be judged against the final truth
vars == <<pos, proj, txns, reads>>

Ev == Trace[pos]
IsEvent(n) == pos <= Len(Trace) /\ Ev.ev = n /\ pos' = pos + 1

Keys == DOMAIN proj
WroteBy(t)      == txns[t].wrote
HasCommit(k, t, ts) == \E w \in proj[k].writes :
                          w.start = txns[t].start /\ w.type # "Rollback" /\ TsLeq(w.commit, ts)
HasRollback(k, t)   == \E w \in proj[k].writes : w.start = txns[t].start /\ w.type = "Rollback"
LockedBy(k, t)      == proj[k].lock # "none" /\ proj[k].lock.ts = txns[t].start

\* C02: evaluated on every logged projection, for every timestamp of interest
PartialAt(t, ts) ==
  \E k1, k2 \in WroteBy(t) :
     /\ HasCommit(k1, t, ts)
     /\ ~HasCommit(k2, t, ts) /\ ~LockedBy(k2, t)
Split(t) == \E k1, k2 \in WroteBy(t) : HasCommit(k1, t, [p |-> 2147483647, l |-> 0]) /\ HasRollback(k2, t)

TsOfInterest == UNION {{w.commit : w \in proj[k].writes} : k \in Keys}
Atomicity     == \A t \in DOMAIN txns : \A ts \in TsOfInterest : ~PartialAt(t, ts)
SingleOutcome == \A t \in DOMAIN txns : ~Split(t)

\* one trace action: an RPC was delivered; the store projection is *bound*, not computed
Rpc == /\ IsEvent("rpc")
       /\ proj' = Ev.proj
       /\ UNCHANGED <<txns, reads>>

\* C03: the answer of Commit is remembered and judged at quiescence
CommitRet == /\ IsEvent("commit_ret")
             /\ txns' = [txns EXCEPT ![Ev.txn].ack = Ev.class, ![Ev.txn].commit = Ev.commitTs,
                                     ![Ev.txn].ended = TRUE]
             /\ UNCHANGED <<proj, reads>>

Truthful == \A t \in DOMAIN txns :
   (txns[t].ended /\ pos > Len(Trace)) =>
      /\ txns[t].ack = "nil"   => \A k \in WroteBy(t) : HasCommit(k, t, [p |-> 2147483647, l |-> 0])
      /\ txns[t].ack = "other" => \A k \in WroteBy(t) : ~HasCommit(k, t, [p |-> 2147483647, l |-> 0])
====
