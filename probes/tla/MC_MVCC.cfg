SPECIFICATION Spec
CONSTANTS
 Key <- mcKey
 Txn <- mcTxn
 Start <- mcStart
 Primary <- mcPrimary
 MaxTs = 6
 None = None
INVARIANT NeverBoth
CONSTRAINT Bound
VIEW View
CHECK_DEADLOCK FALSE
