---- MODULE MC_Latch ----
EXTENDS Latch
mcTxn == {"t1", "t2", "t3"}
mcKey == {"a", "b", "c"}
mcKeysOf == [t \in mcTxn |-> CASE t = "t1" -> <<"a", "b">> [] t = "t2" -> <<"b", "c">> [] OTHER -> <<"a", "c">>]
mcSlotOf == [k \in mcKey |-> IF k = "c" THEN 2 ELSE 1]
mcStart == [t \in mcTxn |-> CASE t = "t1" -> 1 [] t = "t2" -> 2 [] OTHER -> 3]
mcCommit == [t \in mcTxn |-> CASE t = "t1" -> 4 [] t = "t2" -> 5 [] OTHER -> 6]
====
