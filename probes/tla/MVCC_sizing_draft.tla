---- MODULE MVCC_sizing_draft ----
\* Sizing draft of the reference MVCC model (state transitions only, answers omitted).
EXTENDS Integers, Sequences, FiniteSets, TLC
CONSTANTS Key, Txn, Start, Primary, MaxTs, None
\* Start[t] : start ts of t (distinct);  Primary[t] : primary key of t

VARIABLES lock, writes, used, depth
vars == <<lock, writes, used, depth>>

Ts == 1..MaxTs
Free == Ts \ used
Min(S) == CHOOSE x \in S : \A y \in S : x <= y
LowFree == IF Free = {} THEN {} ELSE LET m == Min(Free) IN {m} \cup (IF Free \ {m} = {} THEN {} ELSE {Min(Free \ {m})})

Init == /\ lock = [k \in Key |-> None]
        /\ writes = [k \in Key |-> {}]
        /\ used = {Start[t] : t \in Txn}
        /\ depth = 0

Rec(k, t) == {w \in writes[k] : w.start = Start[t]}
Committed(k, t)  == \E w \in Rec(k, t) : w.type # "Rollback"
RolledBack(k, t) == \E w \in Rec(k, t) : w.type = "Rollback"
Ended(k, t) == Committed(k, t) \/ RolledBack(k, t)
NewerCommit(k, ts) == \E w \in writes[k] : w.commit > ts
OwnLock(k, t) == lock[k] # None /\ lock[k].ts = Start[t]

Step == depth' = depth + 1

\* optimistic / pessimistic prewrite
Prewrite(t, k, kind, pess) ==
  /\ ~Ended(k, t)                                  \* well-formed driver
  /\ \/ /\ lock[k] = None /\ ~pess
        /\ ~NewerCommit(k, Start[t]) /\ ~RolledBack(k, t)
        /\ lock' = [lock EXCEPT ![k] = [ts |-> Start[t], primary |-> Primary[t], kind |-> kind, fts |-> 0, minc |-> 0]]
     \/ /\ OwnLock(k, t) /\ lock[k].kind = "Pess"   \* convert own pessimistic lock, no conflict re-check
        /\ lock' = [lock EXCEPT ![k] = [@ EXCEPT !.kind = kind]]
  /\ UNCHANGED <<writes, used>> /\ Step

PLock(t, k, fts) ==
  /\ ~Ended(k, t)
  /\ fts \in LowFree \cup {Start[t]}
  /\ \/ lock[k] = None
     \/ (OwnLock(k, t) /\ lock[k].kind = "Pess" /\ lock[k].fts < fts)
  /\ ~NewerCommit(k, fts) /\ ~RolledBack(k, t)
  /\ lock' = [lock EXCEPT ![k] = [ts |-> Start[t], primary |-> Primary[t], kind |-> "Pess", fts |-> fts, minc |-> 0]]
  /\ used' = used \cup {fts}
  /\ UNCHANGED writes /\ Step

PRollback(t, k) ==
  /\ OwnLock(k, t) /\ lock[k].kind = "Pess"
  /\ lock' = [lock EXCEPT ![k] = None]
  /\ UNCHANGED <<writes, used>> /\ Step

Commit(t, k, cts) ==
  /\ OwnLock(k, t) /\ cts \in LowFree /\ cts > Start[t] /\ cts >= lock[k].minc
  /\ \A k2 \in Key : \A w \in Rec(k2, t) : w.type = "Rollback" \/ w.commit = cts \* one commit ts per txn (driver)
  /\ lock' = [lock EXCEPT ![k] = None]
  /\ writes' = [writes EXCEPT ![k] = IF lock[k].kind = "Pess" THEN @
                   ELSE @ \cup {[type |-> lock[k].kind, start |-> Start[t], commit |-> cts]}]
  /\ used' = used \cup {cts}
  /\ Step

CommitAgain(t, k) ==   \* same commit ts on another key of the same txn
  /\ OwnLock(k, t)
  /\ \E k2 \in Key : \E w \in Rec(k2, t) : w.type # "Rollback" /\ w.commit >= lock[k].minc /\
        /\ lock' = [lock EXCEPT ![k] = None]
        /\ writes' = [writes EXCEPT ![k] = IF lock[k].kind = "Pess" THEN @
                        ELSE @ \cup {[type |-> lock[k].kind, start |-> Start[t], commit |-> w.commit]}]
  /\ UNCHANGED used /\ Step

Rollback(t, k) ==
  /\ ~Committed(k, t)
  /\ lock' = [lock EXCEPT ![k] = IF OwnLock(k, t) THEN None ELSE @]
  /\ writes' = [writes EXCEPT ![k] = @ \cup {[type |-> "Rollback", start |-> Start[t], commit |-> Start[t]]}]
  /\ (OwnLock(k, t) \/ ~RolledBack(k, t))
  /\ UNCHANGED used /\ Step

\* status check on the primary by a caller at callerTs: push min-commit-ts (live) or expire (rollback)
CheckPush(t, callerTs) ==
  LET k == Primary[t] IN
  /\ OwnLock(k, t) /\ callerTs \in {Start[u] : u \in Txn \ {t}} /\ lock[k].minc <= callerTs
  /\ lock' = [lock EXCEPT ![k] = [@ EXCEPT !.minc = callerTs + 1]]
  /\ UNCHANGED <<writes, used>> /\ Step

CheckExpire(t) ==
  LET k == Primary[t] IN
  /\ \/ OwnLock(k, t)
     \/ (~OwnLock(k, t) /\ ~Ended(k, t))            \* rollback-if-not-exist
  /\ Rollback(t, k)

Resolve(t, k) ==   \* apply the primary's outcome to a secondary lock
  /\ k # Primary[t] /\ OwnLock(k, t)
  /\ \/ (RolledBack(Primary[t], t) /\ Rollback(t, k))
     \/ (Committed(Primary[t], t) /\ CommitAgain(t, k))

Next == \E t \in Txn, k \in Key :
          \/ \E kind \in {"Put", "Del", "Lock"}, pess \in BOOLEAN : Prewrite(t, k, kind, pess)
          \/ \E fts \in Ts : PLock(t, k, fts)
          \/ PRollback(t, k)
          \/ \E cts \in Ts : Commit(t, k, cts)
          \/ CommitAgain(t, k)
          \/ Rollback(t, k)
          \/ \E c \in Ts : CheckPush(t, c)
          \/ CheckExpire(t)
          \/ Resolve(t, k)
Spec == Init /\ [][Next]_vars

NeverBoth == \A k \in Key, t \in Txn : ~(Committed(k, t) /\ RolledBack(k, t))
Bound == depth <= 6
View == <<lock, writes, used>>
====
