---- MODULE MVCCSketch ----
EXTENDS Integers, Sequences, FiniteSets, TLC
CONSTANTS Key, NoLock

\* timestamps are <<physical, logical>>; "max" is modelled by a tag in the trace binding
TsLess(a, b) == a[1] < b[1] \/ (a[1] = b[1] /\ a[2] < b[2])
TsLeq(a, b)  == a = b \/ TsLess(a, b)

VARIABLES lock,    \* [Key -> NoLock or [ts, primary, kind, ttl, forUpdateTs, minCommitTs, val]]
          writes   \* [Key -> SUBSET [type, startTs, commitTs, val]]
vars == <<lock, writes>>

Newest(S) == CHOOSE w \in S : \A v \in S : TsLeq(v.commitTs, w.commitTs)

\* what a snapshot read at ts sees on key k, ignoring locks
Visible(k, ts) ==
  LET S == {w \in writes[k] : w.type \in {"Put", "Del"} /\ TsLeq(w.commitTs, ts)}
  IN IF S = {} THEN "none"
     ELSE IF Newest(S).type = "Del" THEN "none" ELSE Newest(S).val

Blocking(k, ts) ==
  /\ lock[k] # NoLock
  /\ TsLeq(lock[k].ts, ts)
  /\ lock[k].kind \notin {"Lock", "Pessimistic"}

TxnRecord(k, startTs) == {w \in writes[k] : w.startTs = startTs}

\* commit one key: idempotent, rejects after rollback, leftover pessimistic lock leaves no data
CommitKey(k, startTs, commitTs) ==
  IF lock[k] # NoLock /\ lock[k].ts = startTs
  THEN IF TsLess(commitTs, lock[k].minCommitTs)
       THEN [res |-> "CommitTsExpired", lock |-> lock[k], add |-> {}]
       ELSE IF lock[k].kind = "Pessimistic"
            THEN [res |-> "ok", lock |-> NoLock, add |-> {}]
            ELSE [res |-> "ok", lock |-> NoLock,
                  add |-> {[type |-> lock[k].kind, startTs |-> startTs,
                            commitTs |-> commitTs, val |-> lock[k].val]}]
  ELSE IF \E w \in TxnRecord(k, startTs) : w.type # "Rollback"
       THEN [res |-> "ok", lock |-> lock[k], add |-> {}]
       ELSE [res |-> "TxnNotFound", lock |-> lock[k], add |-> {}]

Commit(k, startTs, commitTs) ==
  LET r == CommitKey(k, startTs, commitTs) IN
  /\ lock' = [lock EXCEPT ![k] = r.lock]
  /\ writes' = [writes EXCEPT ![k] = @ \cup r.add]

NeverBoth ==
  \A k \in Key : \A w1, w2 \in writes[k] :
     (w1.startTs = w2.startTs /\ w1.type = "Rollback") => w2.type = "Rollback"
====
