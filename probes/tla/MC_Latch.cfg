SPECIFICATION Spec
CONSTANTS
 Txn <- mcTxn
 Key <- mcKey
 KeysOf <- mcKeysOf
 SlotOf <- mcSlotOf
 StartTs <- mcStart
 CommitTs <- mcCommit
 None = None
INVARIANTS Exclusive StaleExactly NoDeadlock
CHECK_DEADLOCK FALSE
